#!/usr/bin/env python3
"""Regenerates MANIFEST.json from the table below (kept as code so that the file stays valid)."""
import json, sys

BUILT = {
 "C01": ("model_checking", "E1 posgraph", "5.C01",
   "Explicit-state model checking of the real Board: every position of bounded move trees below ~190 curated/mirrored roots (stateright, depth in key) and of completely enumerated 3-man, en-passant (one and two capturers, one enemy slider anywhere), castling, promotion, line-geometry (every king square x rays x pinned man / slider / battery) and two-slider en-passant families is judged against an independent mailbox reference generator: yielded set (missing/extra/duplicate), len, enumerate_moves, legal_quick, Board::legal on legal / pseudo-legal-illegal / wrong-promotion moves, and the complete 64x64x5 sweep on shallow states; pairs of positions whose hashes agree in a truncation of the key are judged back to back on one thread (state carried between calls). Bounded exhaustive, not a proof for all positions.",
   "reference move generator (validated at start-up against published perft constants); stateright 64-bit fingerprints; small-scope hypothesis for positions outside the universes",
   "explicit-state exploration of the implementation (stateright BFS/DFS + exhaustive family enumeration) against a reference model"),
 "C02": ("model_checking", "E1 posgraph", "5.C02",
   "Every transition (legal move applied by make_move_new) of the same universes is compared with the reference successor on all 64 squares, side, rights and the en-passant sandwich; make_move into four different output pre-states, and into every valid sibling of the source (same placement with other rights / en-passant state / side; same squares with two men exchanged), must equal make_move_new.",
   "reference apply (FIDE art. 3); tolerant zone T1 for en-passant recording between 'legal capture exists' and 'neighbouring pawn exists'",
   "explicit-state exploration of the implementation, every transition judged against a reference model"),
 "C03": ("model_checking", "E1 posgraph", "5.C03",
   "Every state, including those reached through null moves and those built directly, has checkers, own pinned men and all occupancy views compared with reference definitions, and the Board compared under == with its from-scratch and from-FEN constructions.",
   "reference attack and pin definitions",
   "explicit-state exploration of the implementation with per-state invariants and from-scratch differential"),
 "C04": ("model_checking", "E1 posgraph + closure", "5.C04",
   "status() and Game::result() judged on all 3-man positions, on the fixpoint closure of KRK (thorough: KQK, KPK with promotions), on the trees around mate/stalemate-in-one roots, on the special-move families, on boxed-king constructions and on the complete set of K+X+P v K+p positions with blocked pawns where the side to move has at most one legal move.",
   "reference (in check, has legal move)",
   "explicit-state exploration incl. reachability fixpoint of small material classes"),
 "C05": ("model_checking", "E1 posgraph + closure (library-driven)", "5.C05",
   "Library-driven exploration (actions are the library's own generated moves): every reachable state must be valid and sane, every transition monotone in rights and material; closure runs cover every history of any length inside KRK (thorough: KQK, KPK).",
   "reference validity predicate and attack test applied to the library's observable position",
   "explicit-state exploration of the implementation's own move graph with state and transition invariants"),
 "C06": ("model_checking", "E1 posgraph", "5.C06",
   "FEN text of every explored state checked field by field against an independent writer, round-tripped, and the independent standard writer's text parsed back; builder Display/FromStr round trips incl. overridden side/en-passant variants; every rank pattern, the longest placement text, every curated root under every other valid rights set; hash-colliding positions rendered back to back.",
   "independent FEN writer in the reference model",
   "explicit-state exploration of the implementation with a text oracle on every state"),
 "C08": ("model_checking", "E1 posgraph", "5.C08",
   "On every arrival (transpositions and null-move paths included) the incremental hash equals the hash of the position built from scratch; a run-wide map observable position -> hash stays single-valued; std Hash consistent with ==; the in-place entry point is driven into default and sibling output boards and whatever it leaves there must hash like that position built from scratch; hash-truncation collision pairs are moved back to back on one thread.",
   "from-scratch construction through the library's own builder as the definition of 'the hash of a position'",
   "explicit-state exploration of the implementation; every arrival judged (path independence)"),
 "C09": ("model_checking", "E1 posgraph + sibling sweep", "5.C09",
   "All single-component variants of ~700 (thorough ~3000) base positions must hash pairwise differently (exercises every Zobrist key that can occur); every position met in the standard universes, and every two-component variant of dense and state-rich bases, enters a hash -> position collision table; the library's keys are observed and every XOR-dependency of up to 8 keys inside a piece table (pawn tables with the en-passant keys) and of up to 4 keys overall is searched by meet-in-the-middle and, if found, realised as two valid positions whose real hashes are compared.",
   "a true 64-bit collision has probability ~n^2/2^65 for n explored positions",
   "exhaustive sibling enumeration + collision table over explicit-state exploration"),
 "C17": ("model_checking", "E1 posgraph (differential)", "5.C17",
   "Every state and transition is replayed on the colour mirror (and left-right mirror when no castling rights) built from scratch: move sets, status, checkers, pinned and successors must be mirror images.",
   "mirror maps of the harness; symmetric defects are out of scope here (C01-C04 cover them)",
   "explicit-state exploration with a metamorphic (mirror) oracle on every state and transition"),
 "C18": ("model_checking", "E1 posgraph", "5.C18",
   "null_move() judged on every state (null is also an action, up to 2 per path): refused iff in check; otherwise equals the passed position built from scratch; hash-truncation collision pairs (incl. 40-bit agreements) are passed back to back on one thread.",
   "reference in-check test; from-scratch construction",
   "explicit-state exploration of the implementation with null moves as actions"),

 "C07": ("model_checking", "E3 sweep + E1 posgraph", "5.C07",
   "Complete enumeration of bounded text spaces (field product, 1-edit balls of seed FENs, all short strings) and of all builder states with up to 2 (thorough 3) men, plus crowded-board families (one kind or two kinds alternating, either side to move), digit runs of 1..300 digits and the standard universes: no panic, accepted => necessary conditions, reference-valid => accepted, and every accepted board is exercised (movegen, status, rendering, make_move) in a debug-assertion build where unchecked pushes and indexing are loud.",
   "reference validity predicate; debug-assertion build turns out-of-bounds access into a panic/abort (a release build would corrupt silently)",
   "exhaustive enumeration of bounded input spaces with a sandwich oracle; accepted inputs driven through the implementation"),
 "C10": ("model_checking", "E2 protocol", "5.C10",
   "Every operation sequence (legal and illegal moves incl. all 20480 values near the root, offers, accepts, declarations, resignations) up to depth 3-7 from 35 roots incl. finished ones, on the real Game in lock step with a reference automaton; all observers compared after every operation; post-result operations must be refused and change nothing; plus a one-ply legality sweep over ~95k start positions and 300-ply games with a non-move operation spliced in before every action index.",
   "reference game automaton; return values the statement leaves open (offer/resign in an open game, accept with pending offer) are only checked for consistency",
   "exhaustive enumeration of API call sequences (history states) against a reference automaton"),
 "C11": ("model_checking", "E2 protocol", "5.C11",
   "All sequences over small repetition menus to depth 9-11 and deviation-bounded long histories (0-2 events spliced into a 105-ply self-avoiding filler, every ply x every event kind) and long-span repetition walks (two kings on cycles of period a, b <= 12: every recurrence gap 2*lcm(a,b), with a deviation at every ply) with can_declare_draw compared after every ply and declare_draw executed around the 99/100/101 boundary and wherever the claim status changes.",
   "FIDE 9.2/9.3 on the reference game; tolerant zone T3 for the two readings of 'en-passant possibility'",
   "exhaustive menu sequences + deviation-bounded exploration of long histories against a reference claim rule"),
 "C12": ("model_checking", "E1 posgraph positions + E3 text sweep", "5.C12",
   "For ~13k positions every admissible spelling of every legal move must parse to it; on ~60 positions every grammar-complete text (~180k each) is judged by a reference interpreter; 1-edit balls of all spellings and all short strings must be panic-free and only ever return legal moves; call-order pairs (positions whose hashes agree in a truncation of the key) are asked about back to back; castling texts are judged on every position (castling where legal, rejected otherwise).",
   "independent SAN writer/interpreter; tolerant zone T4 for unvalidated markers and castling spelled as a king move",
   "exhaustive enumeration of spellings and grammar-complete texts per position against a reference interpreter"),
 "C13": ("exploration", "E3 sweep", "5.C13",
   "All 20480 moves and 64 squares round-trip; every string up to length 5 (thorough 6) over a 30-symbol alphabet with multi-byte characters is parsed as move and as square: no panic, and a success renders to a prefix of the input; all 1 112 064 Unicode scalar values substituted / inserted at every position of five texts; texts padded to every length 0..=1100 and 2^k +- 12; every promotion text with every tail of up to 3 symbols; texts wrapped in every pair of ASCII characters.",
   "the alphabet and length bound for the trie; single-character aliasing is covered for every scalar value, lengths up to 2^20",
   "complete enumeration of a finite input domain"),
 "C14": ("model_checking", "E2 protocol", "5.C14",
   "Per position every program [<=2 removals][<=3 mask phases][flush] within stated bounds (plus a removal right after a mask call) is executed on the real MoveGen twice — with len() and size_hint() read before every next(), with no such call at all, and with len() read only now and then; judged against a reference remaining-move set; the provided Iterator methods (count, last, fold, nth, take, skip, step_by) after 0..5 plain next() calls are compared with plain iteration.",
   "reference legal-move set; tolerant zone T5 (moves sharing source and destination with a removed move); remove_move's return value is not judged",
   "exhaustive enumeration of iterator call programs against a reference model"),
 "C15": ("exploration", "E3 sweep (two builds)", "5.C15",
   "64 squares x every subset of the ray squares x a noise catalogue, rook and bishop, against ray walking; in the default build and (child process) in the +bmi2 build where the pext/pdep variants are judged too; call order: every ordered pair of all 107,648 (piece, square, inner subset) lookups back to back in both builds.",
   "noise on non-ray squares is a catalogue, not all subsets; needs a BMI2-capable CPU for the second configuration (otherwise reported as a cap)",
   "complete enumeration of ray occupancies in both build configurations"),
 "C16": ("exploration", "E3 sweep", "5.C16",
   "Complete enumeration of all geometry tables and step helpers (4096 pairs, 64 squares, 2 colours, all pawn blocker combinations of the relevant squares) against coordinate-arithmetic definitions; Rank/File::from_index on large indices; call-order independence of line / between: all ordered call pairs in process and every possible first call in a fresh child process followed by the complete domain (also two degenerate first calls, a first call on another thread, and one first call of every other geometry function followed by the module's enumeration).",
   "pawn noise on irrelevant squares is a catalogue (none, all, singles, pairs, ladders, local triples)",
   "complete enumeration of finite domains"),
 "C19": ("model_checking", "E2 protocol", "5.C19",
   "Every add/replace_if sequence up to depth 4 (thorough: 5 as far as the budget allows) over 60 operations per size, sizes 1-8(16), two value types (further types and sizes to 2^20 at depth 1-2, a panicking predicate at depth 3, get as an operation inside the sequences, defaults that equal the all-zero pattern without being it in tables up to 128 MiB), replayed on the real table and a slot-array model with all lookups and predicate arguments compared; construction for 1000+ sizes; thorough: tables of 2^31 / 2^32 entries in a child process when memory allows.",
   "6-hash alphabet per size chosen to collide and not collide; out-of-table access is loud only because of the debug-assertion build",
   "exhaustive enumeration of operation sequences against a reference model"),
 "C20": ("exploration", "E3 sweep", "5.C20",
   "Set-algebra laws on ~4700 structured values (all <=2-bit boards, complements, rank/file unions, diagonals): unary laws on all, binary laws in all 19 operator forms on all pairs; quarter sweeps, 3- and 4-bit boards, popcount ladders; the whole Iterator protocol (size_hint, count, last, min, max, fold, nth incl. huge indices, skip, step_by, searching, consuming and two-iterator adaptors); all ordered pairs of ~2,900 irregular values; agreement of the four forms of `*`.",
   "laws are checked on the structured set, not all 2^64 values; operators are bitwise",
   "complete enumeration of a structured finite value set"),
}
PENDING = {}

def main():
    props = [json.loads(l) for l in open("/verif/properties.jsonl")]
    checks, na = [], []
    for p in props:
        pid = p["id"]
        if pid in BUILT:
            cat, engine, ref, text, note, tech = BUILT[pid]
            checks.append({
                "property_id": pid,
                "quick_cmd": f"./check {pid} quick",
                "thorough_cmd": f"./check {pid} thorough",
                "evidence_file": f"/verif/evidence/{pid}.json",
                "replay_cmd_template": "./check --replay {path}",
                "engine": engine,
                "level_claimed": {"category": cat, "text": text, "design_ref": f"DESIGN.md section {ref}"},
                "level_note": note,
                "technique": tech,
            })
        else:
            na.append({"property_id": pid, "reason": PENDING.get(pid, "check not built yet in this session (design in DESIGN.md section 5); not claimed until its check exists and passes on the unchanged tree")})
    m = {
        "version": 1,
        "setup_cmd": "./check --setup",
        "hooks": {
            "guard": "chess_verif",
            "enable": "none needed: every observation point is public API; the harness depends on /repo by path and rebuilds it from the working tree on every check",
            "baseline_off_cmd": "cd /repo && cargo test --workspace --no-fail-fast --offline",
            "source_commits": [],
            "add_only": True,
        },
        "engines": [
            {"name": "E1 posgraph", "path": "harness/src/engine/posgraph.rs", "serves_properties": [k for k, v in BUILT.items() if v[1].startswith("E1")], "kind_free_text": "stateright 0.31 explicit-state BFS/DFS over the real chess::Board in lock step with a mailbox reference position; complete family enumeration; fixpoint closures"},
            {"name": "E2 protocol", "path": "harness/src/engine/", "serves_properties": [k for k, v in BUILT.items() if v[1].startswith("E2")], "kind_free_text": "exhaustive enumeration of API call sequences on stateful objects (Game, MoveGen, CacheTable) against reference automata"},
            {"name": "E3 sweep", "path": "harness/src/props/", "serves_properties": [k for k, v in BUILT.items() if v[1].startswith("E3")], "kind_free_text": "complete enumeration of finite input domains against reference definitions"},
        ],
        "checks": checks,
        "not_applicable": na,
        "notes": "All checks are bounded-exhaustive model checking of the implementation itself; see DESIGN.md. known_findings.json lists genuine defects (fixed ones suppress nothing).",
    }
    json.dump(m, open("/verif/MANIFEST.json", "w"), indent=1)
    print("checks:", len(checks), "not_applicable:", len(na))

main()
