#!/usr/bin/env bash
# convenience: run every check of a tier in sequence, print one line per check
tier="${1:-quick}"
for i in 01 02 03 04 05 06 07 08 09 10 11 12 13 14 15 16 17 18 19 20; do
  s=$(date +%s.%N)
  out=$(./check C$i "$tier" 2>&1); rc=$?
  e=$(date +%s.%N)
  printf "C%s rc=%d %.1fs %s\n" "$i" "$rc" "$(echo "$e - $s" | bc)" "$(echo "$out" | grep -E "^\[C$i\] tier" | tail -1)"
  if [ $rc -ne 0 ]; then echo "$out" | tail -8; fi
done
