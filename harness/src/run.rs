//! Per-check run context: counters, samples, violations, known findings, evidence and replay files.

use serde_json::{json, Map, Value};
use std::collections::{BTreeMap, BTreeSet};
use std::sync::atomic::{AtomicBool, AtomicU64, Ordering};
use std::sync::Mutex;
use std::time::Instant;

#[derive(Clone, Copy, PartialEq, Eq, Debug)]
pub enum Tier {
    Quick,
    Thorough,
}
impl Tier {
    pub fn name(self) -> &'static str {
        match self {
            Tier::Quick => "quick",
            Tier::Thorough => "thorough",
        }
    }
    pub fn pick<T>(self, q: T, t: T) -> T {
        match self {
            Tier::Quick => q,
            Tier::Thorough => t,
        }
    }
}

/// A discrepancy between the library and the reference, with everything needed to replay it.
#[derive(Clone, Debug)]
pub struct Violation {
    pub property: String,
    /// oracle clause, e.g. "C01/missing-move"
    pub clause: String,
    /// clause plus the specific failing shape; matched against known_findings.json
    pub signature: String,
    /// human readable expected vs observed
    pub detail: String,
    /// machine replayable case: {"kind": ..., ...}
    pub case: Value,
}
impl Violation {
    pub fn new(property: &str, clause: &str, shape: &str, detail: String, case: Value) -> Violation {
        Violation {
            property: property.to_string(),
            clause: format!("{property}/{clause}"),
            signature: if shape.is_empty() { format!("{property}/{clause}") } else { format!("{property}/{clause}: {shape}") },
            detail,
            case,
        }
    }
    pub fn to_json(&self) -> Value {
        json!({
            "property": self.property,
            "clause": self.clause,
            "signature": self.signature,
            "detail": self.detail,
            "case": self.case,
        })
    }
}

#[derive(Clone, Debug)]
pub struct KnownFinding {
    pub status: String,
    pub property: String,
    pub signature: String,
    pub what: String,
}

pub struct Run {
    pub id: String,
    pub tier: Tier,
    pub seed: u64,
    pub verif_dir: String,
    pub start: Instant,
    /// soft wall-clock budget in seconds for capped explorations
    pub budget_s: f64,
    counters: Vec<(&'static str, AtomicU64)>,
    pub states: AtomicU64,
    pub transitions: AtomicU64,
    pub evaluations: AtomicU64,
    pub nontrivial: AtomicU64,
    samples: Mutex<Vec<Value>>,
    notes: Mutex<BTreeMap<String, Value>>,
    caps: Mutex<Vec<String>>,
    pub rejected: AtomicU64,
    assumptions: Mutex<Vec<String>>,
    pub known: Vec<KnownFinding>,
    known_hits: Mutex<BTreeMap<String, (String, u64, Value)>>,
    violations: Mutex<Vec<Violation>>,
    pub violated: AtomicBool,
    tolerant: std::sync::RwLock<Vec<(String, AtomicU64)>>,
}

impl Run {
    pub fn new(id: &str, tier: Tier, counter_names: &[&'static str]) -> Run {
        let verif_dir = std::env::var("VERIF_DIR").unwrap_or_else(|_| "/verif".to_string());
        let seed = std::env::var("VERIF_SEED").ok().and_then(|s| s.parse::<i64>().ok()).unwrap_or(0) as u64;
        let known = load_known(&format!("{verif_dir}/known_findings.json"), id);
        let budget_s = std::env::var("VERIF_BUDGET_S")
            .ok()
            .and_then(|s| s.parse::<f64>().ok())
            .unwrap_or(match tier {
                Tier::Quick => 100.0,
                Tier::Thorough => 900.0,
            });
        Run {
            id: id.to_string(),
            tier,
            seed,
            verif_dir,
            start: Instant::now(),
            budget_s,
            counters: counter_names.iter().map(|n| (*n, AtomicU64::new(0))).collect(),
            states: AtomicU64::new(0),
            transitions: AtomicU64::new(0),
            evaluations: AtomicU64::new(0),
            nontrivial: AtomicU64::new(0),
            samples: Mutex::new(vec![]),
            notes: Mutex::new(BTreeMap::new()),
            caps: Mutex::new(vec![]),
            rejected: AtomicU64::new(0),
            assumptions: Mutex::new(vec![]),
            known,
            known_hits: Mutex::new(BTreeMap::new()),
            violations: Mutex::new(vec![]),
            violated: AtomicBool::new(false),
            tolerant: std::sync::RwLock::new(Vec::new()),
        }
    }
    pub fn elapsed(&self) -> f64 {
        self.start.elapsed().as_secs_f64()
    }
    /// positions the library refused to construct (counted; see posgraph::on_rejected)
    pub fn add_dynamic_rejected(&self) {
        self.rejected.fetch_add(1, Ordering::Relaxed);
    }
    pub fn over_budget(&self) -> bool {
        self.elapsed() > self.budget_s
    }
    pub fn add(&self, name: &'static str, n: u64) {
        if n == 0 {
            return;
        }
        for (k, v) in self.counters.iter() {
            if *k == name {
                v.fetch_add(n, Ordering::Relaxed);
                return;
            }
        }
        panic!("machinery: unknown counter {name}");
    }
    pub fn get(&self, name: &'static str) -> u64 {
        for (k, v) in self.counters.iter() {
            if *k == name {
                return v.load(Ordering::Relaxed);
            }
        }
        panic!("machinery: unknown counter {name}");
    }
    pub fn sample(&self, v: Value) {
        let mut s = self.samples.lock().unwrap();
        if s.len() < 12 {
            s.push(v);
        }
    }
    /// Keep a sample with probability ~1/every (deterministic in `n`), capped.
    pub fn sample_nth(&self, n: u64, every: u64, f: impl FnOnce() -> Value) {
        if (n.wrapping_add(self.seed)) % every == 0 {
            let mut s = self.samples.lock().unwrap();
            if s.len() < 12 {
                s.push(f());
            }
        }
    }
    pub fn note(&self, k: &str, v: Value) {
        self.notes.lock().unwrap().insert(k.to_string(), v);
    }
    pub fn cap(&self, what: String) {
        eprintln!("[{}] cap: {}", self.id, what);
        self.caps.lock().unwrap().push(what);
    }
    pub fn assume(&self, what: &str) {
        let mut a = self.assumptions.lock().unwrap();
        if !a.iter().any(|x| x == what) {
            a.push(what.to_string());
        }
    }
    /// Count entries into a tolerant zone.  Hot path: a read lock and one atomic add (a mutex here
    /// made 16 threads spend most of their time in futex calls).
    pub fn tolerant(&self, zone: &str, n: u64) {
        if n == 0 {
            return;
        }
        {
            let r = self.tolerant.read().unwrap();
            if let Some((_, c)) = r.iter().find(|(k, _)| k == zone) {
                c.fetch_add(n, Ordering::Relaxed);
                return;
            }
        }
        let mut w = self.tolerant.write().unwrap();
        if let Some((_, c)) = w.iter().find(|(k, _)| k == zone) {
            c.fetch_add(n, Ordering::Relaxed);
        } else {
            w.push((zone.to_string(), AtomicU64::new(n)));
        }
    }

    /// Report a discrepancy.  Returns true if it is fatal (not a listed known finding).
    pub fn report(&self, v: Violation) -> bool {
        for k in self.known.iter() {
            if k.status == "known" && k.property == v.property && k.signature == v.signature {
                let mut h = self.known_hits.lock().unwrap();
                let e = h.entry(k.signature.clone()).or_insert((k.what.clone(), 0, v.to_json()));
                e.1 += 1;
                return false;
            }
        }
        self.violated.store(true, Ordering::SeqCst);
        let mut vs = self.violations.lock().unwrap();
        if vs.len() < 50 {
            vs.push(v);
        }
        true
    }
    pub fn has_violation(&self) -> bool {
        self.violated.load(Ordering::SeqCst)
    }
    pub fn violations(&self) -> Vec<Violation> {
        self.violations.lock().unwrap().clone()
    }

    /// Write evidence (and replay files), print the verdict lines, return the process exit code.
    pub fn finish(&self, level: &str, rule: &str, exhaustive: bool, extra: Value) -> i32 {
        let wall = self.elapsed();
        let vs = self.violations();
        // distinct violations by signature, shortest case first
        let mut by_sig: BTreeMap<String, Violation> = BTreeMap::new();
        for v in vs.iter() {
            let better = match by_sig.get(&v.signature) {
                None => true,
                Some(o) => v.case.to_string().len() < o.case.to_string().len(),
            };
            if better {
                by_sig.insert(v.signature.clone(), v.clone());
            }
        }
        let mut replay_paths = vec![];
        let _ = std::fs::create_dir_all(format!("{}/replays", self.verif_dir));
        for (i, (_, v)) in by_sig.iter().enumerate() {
            let path = format!("{}/replays/{}-{}.json", self.verif_dir, self.id, i + 1);
            let _ = std::fs::write(&path, serde_json::to_string_pretty(&v.to_json()).unwrap());
            replay_paths.push((path, v.clone()));
        }

        let mut cov = Map::new();
        let states = self.states.load(Ordering::Relaxed);
        let transitions = self.transitions.load(Ordering::Relaxed);
        let evals = self.evaluations.load(Ordering::Relaxed);
        cov.insert("evaluations".into(), json!(evals.max(states + transitions)));
        cov.insert("distinct_nontrivial".into(), json!(self.nontrivial.load(Ordering::Relaxed)));
        cov.insert("rule".into(), json!(rule));
        let samples = self.samples.lock().unwrap().clone();
        cov.insert("samples".into(), Value::Array(samples));
        if level == "model_checking" {
            cov.insert("states".into(), json!(states));
            cov.insert("transitions".into(), json!(transitions));
            cov.insert("traces_validated_against_impl".into(), json!(transitions));
        }
        let caps = self.caps.lock().unwrap().clone();
        cov.insert("exhaustive".into(), json!(exhaustive && caps.is_empty()));
        cov.insert("caps_hit".into(), json!(caps));
        let rej = self.rejected.load(Ordering::Relaxed);
        if rej > 0 {
            cov.insert("valid_positions_refused_by_the_library".into(), json!(rej));
        }
        let mut cs = Map::new();
        for (k, v) in self.counters.iter() {
            cs.insert(k.to_string(), json!(v.load(Ordering::Relaxed)));
        }
        cov.insert("counters".into(), Value::Object(cs));
        let tol: BTreeMap<String, u64> = self.tolerant.read().unwrap().iter().map(|(k, v)| (k.clone(), v.load(Ordering::Relaxed))).collect();
        if !tol.is_empty() {
            cov.insert("tolerant_zone_entries".into(), json!(tol));
        }
        for (k, v) in self.notes.lock().unwrap().iter() {
            cov.insert(k.clone(), v.clone());
        }
        if let Value::Object(m) = extra {
            for (k, v) in m {
                cov.insert(k, v);
            }
        }
        let hits = self.known_hits.lock().unwrap().clone();
        let mut kf = vec![];
        for (sig, (what, n, example)) in hits.iter() {
            kf.push(json!({"signature": sig, "what": what, "occurrences": n, "example": example}));
        }
        cov.insert("known_findings_seen".into(), Value::Array(kf));
        let (rev, diff) = repo_identity();
        cov.insert("repo_head".into(), json!(rev));
        cov.insert("repo_diff_sha256".into(), json!(diff));

        // a run that stopped at a violation (or a cap) before covering enough for its level's
        // required keys still leaves a schema-valid file: level "other" with an explanation
        let nontriv = self.nontrivial.load(Ordering::Relaxed);
        let thin = match level {
            "model_checking" => states == 0 || transitions == 0,
            _ => evals.max(states + transitions) == 0 || nontriv < 2,
        };
        let level = if thin { "other" } else { level };
        if thin {
            cov.insert("explanation".into(), json!(format!("the run ended after {} states / {} transitions / {} evaluations ({} violation(s) reported, caps: {:?}); too little was covered for the level normally claimed by this check, the numbers above are what was measured", states, transitions, evals, by_sig.len(), self.caps.lock().unwrap().clone())));
        }
        let ev = json!({
            "property_id": self.id,
            "tier": self.tier.name(),
            "seed": self.seed,
            "level": level,
            "coverage": Value::Object(cov),
            "assumptions": self.assumptions.lock().unwrap().clone(),
            "wall_s": wall,
            "violations": by_sig.len(),
        });
        // runs against deliberately broken trees (tools/try_patch.sh) set VERIF_EVIDENCE_DIR so that
        // the committed evidence directory only ever holds records of runs on /repo as it is
        let edir = std::env::var("VERIF_EVIDENCE_DIR").unwrap_or_else(|_| format!("{}/evidence", self.verif_dir));
        let _ = std::fs::create_dir_all(&edir);
        let epath = format!("{}/{}.json", edir, self.id);
        std::fs::write(&epath, serde_json::to_string_pretty(&ev).unwrap()).expect("machinery: cannot write evidence");
        if self.tier == Tier::Thorough && std::env::var("VERIF_EVIDENCE_DIR").is_err() {
            // keep the last thorough run's evidence next to the (quick) evidence the harness regenerates
            let _ = std::fs::create_dir_all(format!("{}/evidence_thorough", self.verif_dir));
            let _ = std::fs::write(format!("{}/evidence_thorough/{}.json", self.verif_dir, self.id), serde_json::to_string_pretty(&ev).unwrap());
        }

        for (sig, (what, n, _)) in hits.iter() {
            println!("KNOWN-FINDING: property={} {} [{} occurrence(s); signature {}]", self.id, what, n, sig);
        }
        println!(
            "[{}] tier={} states={} transitions={} evaluations={} nontrivial={} wall={:.1}s exhaustive={}",
            self.id,
            self.tier.name(),
            states,
            transitions,
            evals,
            self.nontrivial.load(Ordering::Relaxed),
            wall,
            exhaustive && self.caps.lock().unwrap().is_empty()
        );
        if replay_paths.is_empty() {
            println!("[{}] PASS", self.id);
            0
        } else {
            for (p, v) in replay_paths.iter() {
                println!("--- {} ---\n{}", v.signature, v.detail);
                println!("VIOLATION property={} replay={}", self.id, p);
            }
            1
        }
    }
}

fn load_known(path: &str, id: &str) -> Vec<KnownFinding> {
    let txt = match std::fs::read_to_string(path) {
        Ok(t) => t,
        Err(_) => return vec![],
    };
    let v: Value = match serde_json::from_str(&txt) {
        Ok(v) => v,
        Err(e) => {
            eprintln!("machinery: known_findings.json unreadable: {e}");
            std::process::exit(2);
        }
    };
    let mut out = vec![];
    if let Some(arr) = v.get("findings").and_then(|a| a.as_array()) {
        for e in arr {
            let g = |k: &str| e.get(k).and_then(|x| x.as_str()).unwrap_or("").to_string();
            if g("property") == id {
                out.push(KnownFinding { status: g("status"), property: g("property"), signature: g("signature"), what: g("what") });
            }
        }
    }
    out
}

fn repo_identity() -> (String, String) {
    let run = |args: &[&str]| -> String {
        std::process::Command::new("git")
            .args(args)
            .output()
            .ok()
            .map(|o| String::from_utf8_lossy(&o.stdout).trim().to_string())
            .unwrap_or_default()
    };
    let head = run(&["-C", "/repo", "rev-parse", "HEAD"]);
    let diff = std::process::Command::new("sh")
        .arg("-c")
        .arg("git -C /repo diff HEAD | sha256sum | cut -d' ' -f1")
        .output()
        .ok()
        .map(|o| String::from_utf8_lossy(&o.stdout).trim().to_string())
        .unwrap_or_default();
    (head, diff)
}

/// Distinct-set helper for "distinct_nontrivial" style counts when the set is small enough to hold.
#[derive(Default)]
pub struct DistinctSet(Mutex<BTreeSet<u64>>);
impl DistinctSet {
    pub fn insert(&self, h: u64) -> bool {
        self.0.lock().unwrap().insert(h)
    }
    pub fn len(&self) -> usize {
        self.0.lock().unwrap().len()
    }
}
