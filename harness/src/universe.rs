//! Position universes: curated roots (with generated mirrors) and completely enumerated families.

use crate::refmodel::*;
use std::collections::BTreeSet;

/// (group, FEN).  Every entry is checked at start-up: the reference must call it valid.
pub const ROOT_FENS: &[(&str, &str)] = &[
    // --- published perft roots
    ("perft", "rnbqkbnr/pppppppp/8/8/8/8/PPPPPPPP/RNBQKBNR w KQkq - 0 1"),
    ("perft", "r3k2r/p1ppqpb1/bn2pnp1/3PN3/1p2P3/2N2Q1p/PPPBBPPP/R3K2R w KQkq - 0 1"),
    ("perft", "8/2p5/3p4/KP5r/1R3p1k/8/4P1P1/8 w - - 0 1"),
    ("perft", "r3k2r/Pppp1ppp/1b3nbN/nP6/BBP1P3/q4N2/Pp1P2PP/R2Q1RK1 w kq - 0 1"),
    ("perft", "rnbq1k1r/pp1Pbppp/2p5/8/2B5/8/PPP1NnPP/RNBQK2R w KQ - 1 8"),
    ("perft", "r4rk1/1pp1qppp/p1np1n2/2b1p1B1/2B1P1b1/P1NP1N2/1PP1QPPP/R4RK1 w - - 0 10"),
    // --- castling
    ("castle", "r3k2r/8/8/8/8/8/8/R3K2R w KQkq - 0 1"),
    ("castle", "r3k2r/8/8/8/8/8/8/R3K2R b KQkq - 0 1"),
    ("castle", "r3k2r/8/8/4b3/8/8/8/R3K2R w KQkq - 0 1"),
    ("castle", "1r1rkr2/8/8/8/8/8/8/R3K2R w KQ - 0 1"),
    ("castle", "r3k2r/8/8/8/8/6n1/8/R3K2R w KQkq - 0 1"),
    ("castle", "r3k2r/8/8/8/8/8/4p3/R3K2R w KQkq - 0 1"),
    ("castle", "r3k2r/8/8/8/8/8/6p1/R3K2R w KQkq - 0 1"),
    ("castle", "r3k2r/p6p/8/8/8/8/P6P/R3K2R w Kq - 0 1"),
    ("castle", "r3k2r/p6p/8/8/8/8/P6P/R3K2R b Qk - 0 1"),
    ("castle", "rn2k1nr/8/8/8/8/8/8/RN2K1NR w KQkq - 0 1"),
    ("castle", "r3k2r/8/8/8/8/8/8/R3K2R w - - 0 1"),
    ("castle", "4k3/8/8/8/8/8/8/R3K2R w KQ - 0 1"),
    ("castle", "2r1k3/8/8/8/8/8/8/R3K2R w KQ - 0 1"),
    ("castle", "4k1r1/8/8/8/8/8/8/R3K2R w KQ - 0 1"),
    ("castle", "4k3/8/8/8/8/8/7q/R3K2R w KQ - 0 1"),
    // --- en passant
    ("ep", "8/8/8/8/k2Pp2Q/8/8/3K4 b - d3 0 1"),
    ("ep", "8/8/8/K2pP2r/8/8/8/7k w - d6 0 1"),
    ("ep", "8/8/8/2k5/2Pp4/8/5B2/4K3 b - c3 0 1"),
    ("ep", "8/8/8/2k5/3pP3/8/5B2/4K3 b - e3 0 1"),
    ("ep", "8/8/8/1k6/3p4/8/2P5/4K3 w - - 0 1"),
    ("ep", "8/8/8/1k6/2Pp4/8/8/4K3 b - c3 0 1"),
    ("ep", "8/8/8/1k6/3pP3/8/8/4KB2 b - e3 0 1"),
    ("ep", "8/8/8/8/2pPp3/8/8/k3K3 b - d3 0 1"),
    ("ep", "4k3/8/8/2PpP3/8/8/8/4K3 w - d6 0 1"),
    ("ep", "rnbqkbnr/ppp2pp1/4p3/3N4/3PpPp1/8/PPP3PP/R1B1KBNR b KQkq f3 0 1"),
    ("ep", "4k3/8/8/8/4p3/8/3P1P2/4K3 w - - 0 1"),
    ("ep", "4k3/3p1p2/8/4P3/8/8/8/4K3 b - - 0 1"),
    ("ep", "8/8/3k4/8/3pP3/8/8/3RK3 b - e3 0 1"),
    ("ep", "8/8/1k6/2b5/2pP4/8/5K2/8 b - d3 0 1"),
    ("ep", "rnbqkbnr/1ppppppp/8/p3P3/8/8/PPPP1PPP/RNBQKBNR b KQkq - 0 1"),
    // en-passant capture as the ONLY legal reply to a check given by the double-pushed pawn
    // (position before the push; the critical state is one ply below)
    ("ep", "1R6/2N5/8/k7/2p5/K7/1P6/8 w - - 0 1"),
    ("ep", "8/8/R7/7k/5P1p/8/5KP1/8 w - - 0 1"),
    // en passant that would be the only reply but is illegal (capturer pinned on the file): mate
    ("ep", "1R6/2N5/8/k7/2p5/K7/1P6/2R5 w - - 0 1"),
    // --- promotion
    ("promo", "8/P1k5/K7/8/8/8/8/8 w - - 0 1"),
    ("promo", "1n1n4/2P5/8/8/8/8/k7/4K3 w - - 0 1"),
    ("promo", "8/5P1k/8/8/8/8/8/K7 w - - 0 1"),
    ("promo", "3nr3/4P3/8/8/8/8/8/4K2k w - - 0 1"),
    ("promo", "b7/1P6/8/8/8/8/8/1k5K w - - 0 1"),
    ("promo", "2K2r2/4P3/8/8/8/8/8/3k4 w - - 0 1"),
    ("promo", "r3k2r/1P4P1/8/8/8/8/1p4p1/R3K2R w KQkq - 0 1"),
    ("promo", "n1n5/PPPk4/8/8/8/8/4Kppp/5N1N b - - 0 1"),
    // --- checks, pins
    ("check", "4k3/8/8/8/8/5n2/8/r3K3 w - - 0 1"),
    ("check", "4k3/8/8/8/7b/8/3PN3/R3K2R w KQ - 0 1"),
    ("check", "4k3/8/8/8/1b5q/8/3N1P2/r2QK3 w - - 0 1"),
    ("check", "8/8/2k5/5q2/5n2/8/5K2/8 b - - 0 1"),
    ("check", "8/8/1P2K3/8/2n5/1q6/8/5k2 b - - 0 1"),
    ("check", "r1bqkb1r/pp3ppp/5n2/2ppn1N1/4pP2/1BN1P3/PPPP2PP/R1BQ1RK1 w kq - 0 9"),
    ("check", "3rk3/8/8/8/8/8/3B4/3K4 w - - 0 1"),
    ("check", "k7/8/8/8/4q3/8/2N5/1K6 w - - 0 1"),
    // discovered DOUBLE check while a further slider pins a defender (position before the move);
    // the colour mirrors reverse the order in which the library scans the sliders
    ("check", "4r1k1/8/8/4n3/8/8/8/r1B1K3 b - - 0 1"),
    ("check", "4q1k1/8/8/8/1b2R3/8/3n4/4K3 b - - 0 1"),
    ("check", "6k1/8/8/8/1b6/8/3NR3/4K2r w - - 0 1"),
    // double check by TWO SLIDERS (one moves off the other's line and checks itself) while a third
    // slider pins a defender; mirrors reverse the scan order
    ("check", "4k1nQ/3R4/8/8/B7/8/8/4K3 w - - 0 1"),
    // a knight promotion that gives check and discovers a slider check, while a further slider pins a man
    // (pinner after / before the checkers in square order)
    ("check", "2B3B1/3P1p2/4k3/8/8/8/8/K7 w - - 0 1"),
    ("check", "1B3B2/2p1P3/3k4/8/8/8/8/K7 w - - 0 1"),
    ("check", "2B3Q1/3P1p2/4k3/8/8/8/8/K6R w - - 0 1"),
    // two men pinned along different lines (same kind and different kinds)
    ("check", "4r1k1/8/8/8/8/8/4R3/r2RK3 w - - 0 1"),
    ("check", "4r1k1/8/8/8/1b6/8/3NR3/4K3 w - - 0 1"),
    ("check", "3q2k1/8/8/8/b7/8/2B5/3BK3 w - - 0 1"),
    // two pinned sliders of one kind on different ranks, one of them immobile (pinned across its
    // own movement), in both scan orders
    ("check", "4r1k1/8/8/b7/4R3/2R5/8/4K3 w - - 0 1"),
    ("check", "4r1k1/8/8/8/1b6/4R3/3R4/4K3 w - - 0 1"),
    ("check", "7k/8/8/8/q7/1B6/8/3KB2r w - - 0 1"),
    // --- terminal neighbourhoods
    ("mate", "6k1/5ppp/8/8/8/8/8/R3K3 w Q - 0 1"),
    ("mate", "7k/5Q2/8/8/8/8/8/K7 w - - 0 1"),
    ("mate", "rnbqkbnr/pppp1ppp/8/4p3/6P1/5P2/PPPPP2P/RNBQKBNR b KQkq - 0 1"),
    ("mate", "rnb1kbnr/pppp1ppp/8/4p3/6Pq/5P2/PPPPP2P/RNBQKBNR w KQkq - 0 1"),
    ("mate", "7k/8/6Q1/8/8/8/8/K7 b - - 0 1"),
    ("mate", "5k2/5P2/5K2/8/8/8/8/8 w - - 0 1"),
    ("mate", "k7/2K5/8/8/8/8/8/1R6 w - - 0 1"),
    ("mate", "6rk/6pp/8/6N1/8/8/8/K7 w - - 0 1"),
    ("mate", "7k/5K1p/6P1/8/8/8/8/8 w - - 0 1"),
    ("mate", "k7/8/1K6/8/8/8/8/7R w - - 0 1"),
    ("mate", "8/8/8/8/8/6k1/8/r5NK w - - 0 1"),
    ("mate", "k7/P7/K7/8/8/8/8/8 b - - 0 1"),
    ("mate", "5k2/5P2/4K3/8/8/8/8/8 b - - 0 1"),
    // --- text shape: the longest possible placement field (32 men, no two adjacent on a rank: 71 characters)
    ("many", "r1b1k1n1/1n1q1b1r/1p1p1p1p/p1p1p1p1/1P1P1P1P/P1P1P1P1/1N1Q1B1R/R1B1K1N1 w Qq - 0 1"),
    ("many", "1r1b1k1n/n1q1b1r1/p1p1p1p1/1p1p1p1p/P1P1P1P1/1P1P1P1P/N1Q1B1R1/1R1B1K1N b - - 0 1"),
    ("many", "1r1b1k1n/n1q1b1r1/1p1p1p1p/p1p1p1p1/1P1P1P1P/P1P1P1P1/N1Q1B1R1/1R1B1K1N b - b3 0 1"),
    // --- a king with a pinned man on all eight rays and twelve enemy sliders aligned with it (batteries behind the pinners)
    ("many", "B7/1Q1R1Q2/2ppb3/QQnknQQ1/2ppp3/1Q1Q1Q2/3R4/7K w - - 0 1"),
    ("many", "B7/1Q1R1Q2/2ppb3/QQnknQQ1/2ppp3/1Q1Q1Q2/3R4/7K b - - 0 1"),
    // --- ten men of one kind (two original + eight promoted): the maximum
    ("many", "4k3/8/8/8/8/NNNNN3/NNNNN3/4K3 w - - 0 1"),
    ("many", "7k/8/8/8/8/RRRRR3/RRRRR3/4K3 w - - 0 1"),
    ("many", "3k4/8/8/8/8/1BBBBB2/1BBBBB2/6K1 w - - 0 1"),
    // --- many men of one kind (promoted material): bit-iteration order, fixed-size buffers
    ("many", "R6R/3Q4/1Q4Q1/4Q3/2Q4Q/Q4Q2/pp1Q4/kBNN1KB1 w - - 0 1"),
    ("many", "7k/7p/Q1Q1Q3/6Q1/1Q6/3Q1Q2/Q1Q5/4K2R w K - 0 1"),
    ("many", "3k4/8/8/8/8/N1N1N3/1N1N4/N1N1K3 w - - 0 1"),
    ("many", "4k3/8/8/1R1R1R2/8/1R1R1R2/8/4K3 w - - 0 1"),
    ("many", "7k/8/2B1B1B1/8/2B1B1B1/8/8/4K3 w - - 0 1"),
    ("many", "K6k/8/7p/8/Q2n3Q/8/8/Q2Q2Q1 w - - 0 1"),
    // all sixteen men can move and two pawns can capture en passant: 18 move-list entries (the maximum)
    ("many", "rnbqkbnr/1pp1pppp/p7/2PpP3/P6P/1P1P1PP1/8/RNBQKBNR w KQkq d6 0 1"),
    ("many", "rnbqkbnr/1pp2ppp/p7/2PpP3/P3p2P/1P1P1PP1/8/RNBQKBNR w KQkq d6 0 1"),
    // --- sparse endings
    ("sparse", "8/8/8/4k3/8/8/4P3/4K3 w - - 0 1"),
    ("sparse", "8/8/8/8/8/2k5/1r6/K7 w - - 0 1"),
    ("sparse", "5k2/8/8/8/8/8/8/4K2R w K - 0 1"),
    ("sparse", "r3k3/8/8/8/8/8/8/3K4 b q - 0 1"),
    ("sparse", "8/8/8/8/8/k7/p1K5/8 b - - 0 1"),
    ("sparse", "8/k1P5/8/1K6/8/8/8/8 w - - 0 1"),
];

#[derive(Clone)]
pub struct Root {
    pub group: &'static str,
    pub pos: RefPos,
    pub origin: String,
}

/// All curated roots plus their colour mirrors and (when free of castling rights) their
/// left-right mirrors; deduplicated; each verified valid by the reference.
pub fn roots() -> Vec<Root> {
    let mut seen = BTreeSet::new();
    let mut out = vec![];
    for (g, f) in ROOT_FENS {
        let p = RefPos::from_fen(f).unwrap_or_else(|e| panic!("machinery: bad root fen {f}: {e}"));
        let mut variants = vec![(p, "as listed".to_string()), (p.mirror_v(), "colour mirror".to_string())];
        if p.castle == 0 {
            variants.push((p.mirror_h(), "left-right mirror".to_string()));
            variants.push((p.mirror_h().mirror_v(), "both mirrors".to_string()));
        }
        for (v, how) in variants {
            if let Some(r) = v.invalid_reason() {
                panic!("machinery: root {} ({} of {}) is invalid: {}", v.fen(), how, f, r);
            }
            if seen.insert(v) {
                out.push(Root { group: g, pos: v, origin: format!("{how} of {f}") });
            }
        }
    }
    out
}

/// Largest depth d such that the reference's perft(d) of `p` stays within `budget` leaves (1..=cap).
pub fn depth_for(p: &RefPos, budget: u64, cap: u8) -> u8 {
    let mut d = 1u8;
    while d < cap {
        if p.perft(d as u32 + 1) > budget {
            break;
        }
        d += 1;
    }
    d
}

// ------------------------------------------------------------------------------------------
// Families.  Each family is a finite index space; `get(i)` decodes index i into a position or
// None (squares collide / position invalid).  Enumeration is complete: every index is visited.

pub trait Family: Sync {
    fn name(&self) -> String;
    fn size(&self) -> u64;
    fn get(&self, i: u64) -> Option<RefPos>;
    /// Restrict the action menu AT THE MEMBER ITSELF (deeper levels always use the full menu).
    fn first_moves(&self, _p: &RefPos) -> Option<Vec<RMove>> {
        None
    }
}

fn take(i: &mut u64, n: u64) -> u64 {
    let v = *i % n;
    *i /= n;
    v
}
/// Put a man only on an empty square; false if occupied.
fn place(p: &mut RefPos, s: Sq, k: Kind, c: Col) -> bool {
    if p.bd[s as usize] != 0 {
        return false;
    }
    p.put(s, k, c);
    true
}
fn valid(p: RefPos) -> Option<RefPos> {
    if p.is_valid() {
        Some(p)
    } else {
        None
    }
}

/// Two kings plus the listed men on all squares, both sides to move; optionally, for every pawn
/// of the side not to move that could just have double-pushed, the position with that state.
pub struct MenFamily {
    pub men: Vec<(Kind, Col)>,
    pub with_dp: bool,
}
impl Family for MenFamily {
    fn name(&self) -> String {
        let mut w = String::from("K");
        let mut b = String::from("K");
        for (k, c) in self.men.iter() {
            let ch = piece_char(*k, Col::W);
            if *c == Col::W {
                w.push(ch)
            } else {
                b.push(ch)
            }
        }
        format!("all placements of {}v{}{}", w, b, if self.with_dp { " (+double-push states)" } else { "" })
    }
    fn size(&self) -> u64 {
        let dpv = if self.with_dp { 9 } else { 1 };
        2 * dpv * 64u64.pow(2 + self.men.len() as u32)
    }
    fn get(&self, mut i: u64) -> Option<RefPos> {
        let mut p = RefPos::empty();
        p.stm = if take(&mut i, 2) == 0 { Col::W } else { Col::B };
        let dpv = if self.with_dp { take(&mut i, 9) } else { 0 };
        place(&mut p, take(&mut i, 64) as u8, Kind::K, Col::W);
        if !place(&mut p, take(&mut i, 64) as u8, Kind::K, Col::B) {
            return None;
        }
        let mut last: Option<((Kind, Col), u64)> = None;
        for m in self.men.iter() {
            let s = take(&mut i, 64);
            // identical men are interchangeable: keep only ascending square order
            if let Some((lm, ls)) = last {
                if lm == *m && s < ls {
                    return None;
                }
            }
            if !place(&mut p, s as u8, m.0, m.1) {
                return None;
            }
            last = Some((*m, s));
        }
        if dpv > 0 {
            p.dp = dpv as i8 - 1;
        }
        valid(p)
    }
}

#[derive(Clone, Copy, PartialEq, Eq, Debug)]
pub enum Extra {
    None,
    /// one enemy (= pusher's colour) rook, bishop or queen anywhere
    EnemySlider,
    /// one man of any kind (no king) and either colour anywhere
    Any,
}
impl Extra {
    fn n(self) -> u64 {
        match self {
            Extra::None => 1,
            Extra::EnemySlider => 1 + 3 * 64,
            Extra::Any => 1 + 10 * 64,
        }
    }
    /// decode (0 = no extra man)
    fn get(self, v: u64, enemy: Col) -> Option<(Kind, Col, Sq)> {
        if v == 0 {
            return None;
        }
        let v = v - 1;
        let s = (v % 64) as u8;
        let t = v / 64;
        match self {
            Extra::None => None,
            Extra::EnemySlider => Some(([Kind::R, Kind::B, Kind::Q][t as usize], enemy, s)),
            Extra::Any => {
                let k = [Kind::P, Kind::N, Kind::B, Kind::R, Kind::Q][(t % 5) as usize];
                Some((k, if t / 5 == 0 { Col::W } else { Col::B }, s))
            }
        }
    }
}

/// En-passant family: a pawn has just double-pushed beside an enemy pawn; kings anywhere; one
/// optional extra man.  Both colours, all files, both sides of the pushed pawn.
pub struct EpFamily {
    pub extra: Extra,
    /// true: the member is the position BEFORE the double push (pawn back on its origin square,
    /// pusher to move), so that the push itself is a transition made by the library
    pub pre_push: bool,
}
impl Family for EpFamily {
    fn first_moves(&self, p: &RefPos) -> Option<Vec<RMove>> {
        if self.pre_push {
            Some(EpFamily::pushes(p))
        } else {
            None
        }
    }
    fn name(&self) -> String {
        format!("en-passant family (extra man: {:?}{})", self.extra, if self.pre_push { "; positions before the double push, first action restricted to the push" } else { "" })
    }
    fn size(&self) -> u64 {
        2 * 8 * 2 * 64 * 64 * self.extra.n()
    }
    fn get(&self, mut i: u64) -> Option<RefPos> {
        let pusher = if take(&mut i, 2) == 0 { Col::W } else { Col::B };
        let f = take(&mut i, 8) as i8;
        let d = if take(&mut i, 2) == 0 { -1i8 } else { 1 };
        let wk = take(&mut i, 64) as u8;
        let bk = take(&mut i, 64) as u8;
        let ex = take(&mut i, self.extra.n());
        if !(0..8).contains(&(f + d)) {
            return None;
        }
        let mut p = RefPos::empty();
        p.stm = pusher.flip();
        let r = pusher.dp_rank();
        p.put(sq(f, r), Kind::P, pusher);
        p.put(sq(f + d, r), Kind::P, pusher.flip());
        if !place(&mut p, wk, Kind::K, Col::W) || !place(&mut p, bk, Kind::K, Col::B) {
            return None;
        }
        if let Some((k, c, s)) = self.extra.get(ex, pusher) {
            if !place(&mut p, s, k, c) {
                return None;
            }
        }
        p.dp = f;
        let p = valid(p)?;
        if self.pre_push {
            let mut q = p;
            q.dp = -1;
            q.stm = pusher;
            q.clear(sq(f, r));
            q.put(sq(f, r - 2 * pusher.dir()), Kind::P, pusher);
            return valid(q);
        }
        Some(p)
    }
}

impl EpFamily {
    /// the double pushes of a pre-push member that land beside an enemy pawn
    fn pushes(p: &RefPos) -> Vec<RMove> {
        p.legal_moves().into_iter().filter(|m| p.is_double_push(*m) && p.apply(*m).ep_adjacent()).collect()
    }
}

/// En-passant family with TWO capturers: a pawn has just double-pushed between two enemy pawns
/// (both may capture en passant; each may be pinned on its own file, rank or diagonal
/// independently of the other); kings anywhere; one optional extra man.
pub struct EpTwoFamily {
    pub extra: Extra,
    pub pre_push: bool,
}
impl Family for EpTwoFamily {
    fn first_moves(&self, p: &RefPos) -> Option<Vec<RMove>> {
        if self.pre_push {
            Some(EpFamily::pushes(p))
        } else {
            None
        }
    }
    fn name(&self) -> String {
        format!("en-passant family with a capturer on both sides (extra man: {:?}{})", self.extra, if self.pre_push { "; positions before the double push, first action restricted to the push" } else { "" })
    }
    fn size(&self) -> u64 {
        2 * 6 * 64 * 64 * self.extra.n()
    }
    fn get(&self, mut i: u64) -> Option<RefPos> {
        let pusher = if take(&mut i, 2) == 0 { Col::W } else { Col::B };
        let f = 1 + take(&mut i, 6) as i8;
        let wk = take(&mut i, 64) as u8;
        let bk = take(&mut i, 64) as u8;
        let ex = take(&mut i, self.extra.n());
        let mut p = RefPos::empty();
        p.stm = pusher.flip();
        let r = pusher.dp_rank();
        p.put(sq(f, r), Kind::P, pusher);
        p.put(sq(f - 1, r), Kind::P, pusher.flip());
        p.put(sq(f + 1, r), Kind::P, pusher.flip());
        if !place(&mut p, wk, Kind::K, Col::W) || !place(&mut p, bk, Kind::K, Col::B) {
            return None;
        }
        if let Some((k, c, s)) = self.extra.get(ex, pusher) {
            if !place(&mut p, s, k, c) {
                return None;
            }
        }
        p.dp = f;
        let p = valid(p)?;
        if self.pre_push {
            let mut q = p;
            q.dp = -1;
            q.stm = pusher;
            q.clear(sq(f, r));
            q.put(sq(f, r - 2 * pusher.dir()), Kind::P, pusher);
            return valid(q);
        }
        Some(p)
    }
}

/// En-passant family with TWO enemy sliders: pushed pawn and one capturer, the capturing side's king
/// anywhere, two enemy sliders on squares ALIGNED with that king (same rank, file or diagonal; a slider
/// elsewhere cannot matter to the capture's legality), the other king on the first square of a fixed list
/// that gives a valid position.  `fitting`: rooks / queens on the king's rank and file, bishops / queens on
/// its diagonals only (else every slider kind on every aligned square).
pub fn ep_two_sliders_family(fitting: bool) -> ListFamily {
    use rayon::prelude::*;
    let jobs: Vec<(Col, i8, i8, u8)> = [Col::W, Col::B].into_iter().flat_map(|c| (0..8i8).flat_map(move |f| [-1i8, 1].into_iter().flat_map(move |d| (0..64u8).map(move |k| (c, f, d, k))))).collect();
    let items: Vec<RefPos> = jobs
        .par_iter()
        .flat_map_iter(|(pusher, f, d, ksq)| {
            let mut out = vec![];
            if !(0..8).contains(&(f + d)) {
                return out;
            }
            let me = pusher.flip();
            let r = pusher.dp_rank();
            let mut base = RefPos::empty();
            base.stm = me;
            base.put(sq(*f, r), Kind::P, *pusher);
            base.put(sq(f + d, r), Kind::P, me);
            if !place(&mut base, *ksq, Kind::K, me) {
                return out;
            }
            base.dp = *f;
            // squares aligned with the king, with the slider kinds offered there
            let mut opts: Vec<(Sq, Kind)> = vec![];
            for s in 0..64u8 {
                if s == *ksq || base.bd[s as usize] != 0 {
                    continue;
                }
                let (df, dr) = (file_of(s) - file_of(*ksq), rank_of(s) - rank_of(*ksq));
                let orth = df == 0 || dr == 0;
                let diag = df.abs() == dr.abs();
                if !orth && !diag {
                    continue;
                }
                for k in [Kind::R, Kind::B, Kind::Q] {
                    if fitting && ((k == Kind::R && !orth) || (k == Kind::B && !diag)) {
                        continue;
                    }
                    opts.push((s, k));
                }
            }
            for i in 0..opts.len() {
                for j in (i + 1)..opts.len() {
                    if opts[i].0 == opts[j].0 {
                        continue;
                    }
                    let mut p = base;
                    p.put(opts[i].0, opts[i].1, *pusher);
                    p.put(opts[j].0, opts[j].1, *pusher);
                    for ok in [63u8, 56, 7, 0, 60, 4, 39, 32] {
                        let mut q = p;
                        if place(&mut q, ok, Kind::K, *pusher) && q.is_valid() {
                            out.push(q);
                            break;
                        }
                    }
                }
            }
            out
        })
        .collect();
    ListFamily { label: format!("en-passant family with two enemy sliders aligned with the capturing side's king ({})", if fitting { "rooks / queens on its rank and file, bishops / queens on its diagonals" } else { "every slider kind on every aligned square" }), items }
}

/// En-passant family with two sliders of the CAPTURING side aligned with the pusher's king: the capture can
/// uncover two sliders at once (through the capturing pawn's source square and through the captured pawn's
/// square).  The pusher's king anywhere, the sliders on squares aligned with it (fitting kinds), the capturing
/// side's king on the first square of a fixed list that gives a valid position.
pub fn ep_discoverers_family() -> ListFamily {
    use rayon::prelude::*;
    let jobs: Vec<(Col, i8, i8, u8)> = [Col::W, Col::B].into_iter().flat_map(|c| (0..8i8).flat_map(move |f| [-1i8, 1].into_iter().flat_map(move |d| (0..64u8).map(move |k| (c, f, d, k))))).collect();
    let items: Vec<RefPos> = jobs
        .par_iter()
        .flat_map_iter(|(pusher, f, d, ksq)| {
            let mut out = vec![];
            if !(0..8).contains(&(f + d)) {
                return out;
            }
            let me = pusher.flip();
            let r = pusher.dp_rank();
            let mut base = RefPos::empty();
            base.stm = me;
            base.put(sq(*f, r), Kind::P, *pusher);
            base.put(sq(f + d, r), Kind::P, me);
            if !place(&mut base, *ksq, Kind::K, *pusher) {
                return out;
            }
            base.dp = *f;
            let mut opts: Vec<(Sq, Kind)> = vec![];
            for s in 0..64u8 {
                if s == *ksq || base.bd[s as usize] != 0 {
                    continue;
                }
                let (df, dr) = (file_of(s) - file_of(*ksq), rank_of(s) - rank_of(*ksq));
                let orth = df == 0 || dr == 0;
                let diag = df.abs() == dr.abs();
                if !orth && !diag {
                    continue;
                }
                for k in [Kind::R, Kind::B, Kind::Q] {
                    if (k == Kind::R && !orth) || (k == Kind::B && !diag) {
                        continue;
                    }
                    opts.push((s, k));
                }
            }
            for i in 0..opts.len() {
                for j in (i + 1)..opts.len() {
                    if opts[i].0 == opts[j].0 {
                        continue;
                    }
                    let mut p = base;
                    p.put(opts[i].0, opts[i].1, me);
                    p.put(opts[j].0, opts[j].1, me);
                    for ok in [63u8, 56, 7, 0, 60, 4, 39, 32] {
                        let mut q = p;
                        if place(&mut q, ok, Kind::K, me) && q.is_valid() {
                            out.push(q);
                            break;
                        }
                    }
                }
            }
            out
        })
        .collect();
    ListFamily { label: "en-passant family with two sliders of the capturing side aligned with the pusher's king (double discovered checks by the capture)".into(), items }
}

/// Castling family: the side to move has king and rook(s) at home with a non-empty rights subset;
/// enemy king anywhere; `extras` further men (any kind, either colour, anywhere).
pub struct CastleFamily {
    pub extras: u32,
    /// also give the opponent both rooks and full rights (rook-captured-at-home transitions)
    pub opp_rights: bool,
    /// the side WITHOUT the enumerated rights is to move (so its king and extra men can capture
    /// a rook on its home square, or give check, in one ply)
    pub opp_to_move: bool,
}
impl Family for CastleFamily {
    fn name(&self) -> String {
        format!("castling family ({} extra men{}{})", self.extras, if self.opp_rights { ", opponent with rights" } else { "" }, if self.opp_to_move { ", opponent to move" } else { "" })
    }
    fn size(&self) -> u64 {
        2 * 3 * 64 * (1 + 10 * 64u64).pow(self.extras)
    }
    fn get(&self, mut i: u64) -> Option<RefPos> {
        let me = if take(&mut i, 2) == 0 { Col::W } else { Col::B };
        let rights = take(&mut i, 3) + 1; // 1 = K, 2 = Q, 3 = both
        let ok = take(&mut i, 64) as u8;
        let mut p = RefPos::empty();
        p.stm = if self.opp_to_move { me.flip() } else { me };
        let hr = me.home_rank();
        p.put(sq(4, hr), Kind::K, me);
        let (kb, qb) = if me == Col::W { (WK, WQ) } else { (BK, BQ) };
        if rights & 1 != 0 {
            p.put(sq(7, hr), Kind::R, me);
            p.castle |= kb;
        }
        if rights & 2 != 0 {
            p.put(sq(0, hr), Kind::R, me);
            p.castle |= qb;
        }
        if self.opp_rights {
            let opp = me.flip();
            let ohr = opp.home_rank();
            if ok != sq(4, ohr) {
                return None;
            }
            p.put(sq(4, ohr), Kind::K, opp);
            p.put(sq(0, ohr), Kind::R, opp);
            p.put(sq(7, ohr), Kind::R, opp);
            p.castle |= if opp == Col::W { WK | WQ } else { BK | BQ };
        } else if !place(&mut p, ok, Kind::K, me.flip()) {
            return None;
        }
        let mut prev = 0u64;
        for _ in 0..self.extras {
            let v = take(&mut i, 1 + 10 * 64);
            if v != 0 && v < prev {
                return None; // unordered pair: keep ascending codes only
            }
            prev = v;
            if let Some((k, c, s)) = Extra::Any.get(v, me.flip()) {
                if !place(&mut p, s, k, c) {
                    return None;
                }
            }
        }
        valid(p)
    }
}

/// Both sides have king and both rooks at home; every one of the 16 combinations of castling
/// rights; either side to move; one optional extra man of any kind and colour anywhere.
pub struct BothCastleFamily;
impl Family for BothCastleFamily {
    fn name(&self) -> String {
        "both-sides castling family (16 rights sets, 1 optional extra man)".into()
    }
    fn size(&self) -> u64 {
        2 * 16 * (1 + 10 * 64)
    }
    fn get(&self, mut i: u64) -> Option<RefPos> {
        let mut p = RefPos::empty();
        p.stm = if take(&mut i, 2) == 0 { Col::W } else { Col::B };
        p.castle = take(&mut i, 16) as u8;
        for c in [Col::W, Col::B] {
            let hr = c.home_rank();
            p.put(sq(4, hr), Kind::K, c);
            p.put(sq(0, hr), Kind::R, c);
            p.put(sq(7, hr), Kind::R, c);
        }
        if let Some((k, c, s)) = Extra::Any.get(take(&mut i, 1 + 10 * 64), Col::W) {
            if !place(&mut p, s, k, c) {
                return None;
            }
        }
        valid(p)
    }
}

/// Promotion family: a pawn of the side to move on its seventh rank; kings anywhere; the three
/// squares in front of it (promotion rank, adjacent files) each empty or an enemy N/B/R/Q.
pub struct PromoFamily {
    pub files: Vec<i8>,
    pub cells: Vec<Option<Kind>>,
}
impl PromoFamily {
    pub fn full() -> PromoFamily {
        PromoFamily { files: (0..8).collect(), cells: vec![None, Some(Kind::N), Some(Kind::B), Some(Kind::R), Some(Kind::Q)] }
    }
    pub fn reduced() -> PromoFamily {
        PromoFamily { files: vec![0, 3, 7], cells: vec![None, Some(Kind::N), Some(Kind::R)] }
    }
}
impl Family for PromoFamily {
    fn name(&self) -> String {
        format!("promotion family (files {:?}, front cells {:?})", self.files, self.cells)
    }
    fn size(&self) -> u64 {
        2 * self.files.len() as u64 * 64 * 64 * (self.cells.len() as u64).pow(3)
    }
    fn get(&self, mut i: u64) -> Option<RefPos> {
        let me = if take(&mut i, 2) == 0 { Col::W } else { Col::B };
        let f = self.files[take(&mut i, self.files.len() as u64) as usize];
        let wk = take(&mut i, 64) as u8;
        let bk = take(&mut i, 64) as u8;
        let mut p = RefPos::empty();
        p.stm = me;
        let r7 = me.promo_rank() - me.dir();
        p.put(sq(f, r7), Kind::P, me);
        for df in [-1i8, 0, 1] {
            let c = self.cells[take(&mut i, self.cells.len() as u64) as usize];
            if let Some(k) = c {
                if !(0..8).contains(&(f + df)) {
                    return None;
                }
                p.put(sq(f + df, me.promo_rank()), k, me.flip());
            }
        }
        if !place(&mut p, wk, Kind::K, Col::W) || !place(&mut p, bk, Kind::K, Col::B) {
            return None;
        }
        valid(p)
    }
}

/// Wrapper: at the member itself only the (pseudo-legal) pawn moves of the side to move are
/// explored (for the en-passant families that means the capturer's moves, en passant included).
pub struct PawnMovesFirst<F: Family>(pub F);
impl<F: Family> Family for PawnMovesFirst<F> {
    fn name(&self) -> String {
        format!("{}; first action restricted to pawn moves", self.0.name())
    }
    fn size(&self) -> u64 {
        self.0.size()
    }
    fn get(&self, i: u64) -> Option<RefPos> {
        self.0.get(i)
    }
    fn first_moves(&self, p: &RefPos) -> Option<Vec<RMove>> {
        Some(p.pseudo_moves().into_iter().filter(|m| matches!(p.at(m.from), Some((Kind::P, _)))).collect())
    }
}

/// Collect all members of a family (for use as closure seeds).
pub fn collect(f: &dyn Family) -> Vec<RefPos> {
    use rayon::prelude::*;
    let n = f.size();
    let chunk = 1u64 << 14;
    (0..(n + chunk - 1) / chunk)
        .into_par_iter()
        .flat_map_iter(|c| ((c * chunk)..((c + 1) * chunk).min(n)).filter_map(|i| f.get(i)).collect::<Vec<_>>())
        .collect()
}

pub fn three_man_families() -> Vec<MenFamily> {
    let mut v = vec![MenFamily { men: vec![], with_dp: false }];
    for k in [Kind::Q, Kind::R, Kind::B, Kind::N, Kind::P] {
        for c in [Col::W, Col::B] {
            v.push(MenFamily { men: vec![(k, c)], with_dp: false });
        }
    }
    v
}

// ------------------------------------------------------------------------------------------
// Feature-covering roots.  Positions are found by a reference-only breadth-first search below
// dense base positions (openings played out by the reference model, the curated roots); one
// representative (the first in BFS order) is kept per *feature signature* — the combination of
// check kind, pins, en-passant state, castling state, promotion availability and classes of
// pseudo-legal-but-illegal moves.  The list is generated offline by `cv --gen-feature-roots`
// (reference model only, the library is not consulted) and stored in feature_roots.txt.

pub const OPENING_LINES: &[&str] = &[
    "e2e4 e7e5 g1f3 b8c6 f1b5 a7a6 b5a4 g8f6 e1g1 f8e7 f1e1 b7b5 a4b3 d7d6 c2c3 e8g8 h2h3 c6a5 b3c2 c7c5 d2d4 d8c7",
    "e2e4 c7c5 g1f3 d7d6 d2d4 c5d4 f3d4 g8f6 b1c3 a7a6 c1e3 e7e5 d4b3 c8e6 f2f3 f8e7 d1d2 e8g8 e1c1 b8d7 g2g4 b7b5",
    "d2d4 d7d5 c2c4 e7e6 b1c3 g8f6 c1g5 f8e7 e2e3 e8g8 g1f3 h7h6 g5h4 b7b6 c4d5 f6d5 h4e7 d8e7 c3d5 e6d5 a1c1 c8e6",
    "d2d4 g8f6 c2c4 g7g6 b1c3 f8g7 e2e4 d7d6 g1f3 e8g8 f1e2 e7e5 e1g1 b8c6 d4d5 c6e7 f3e1 f6d7 e1d3 f7f5 c1d2 d7f6",
    "e2e4 e7e6 d2d4 d7d5 b1c3 f8b4 e4e5 c7c5 a2a3 b4c3 b2c3 g8e7 d1g4 d8c7 g4g7 h8g8 g7h7 c5d4 g1e2 b8c6 f2f4 c8d7",
    "e2e4 c7c6 d2d4 d7d5 e4e5 c8f5 g1f3 e7e6 f1e2 c6c5 c1e3 c5d4 f3d4 g8e7 c2c4 b8c6 d1a4 d5c4 b1c3 f5g6 e1c1 a7a6",
    "c2c4 e7e5 b1c3 g8f6 g1f3 b8c6 g2g3 d7d5 c4d5 f6d5 f1g2 d5b6 e1g1 f8e7 a2a3 e8g8 b2b4 c8e6 a1b1 f7f6 d2d3 a7a5",
    "e2e4 e7e5 f2f4 e5f4 g1f3 g7g5 h2h4 g5g4 f3e5 g8f6 f1c4 d7d5 e4d5 f8d6 d2d4 f6h5 e1g1 d8h4 d1e1 h4e1 f1e1 e8g8",
    "e2e4 d7d5 e4d5 d8d5 b1c3 d5a5 d2d4 g8f6 g1f3 c7c6 f1c4 c8f5 c1d2 e7e6 d1e2 f8b4 e1c1 b8d7 a2a3 b4c3 d2c3 a5c7",
    "g1f3 d7d5 g2g3 c7c5 f1g2 b8c6 e1g1 e7e5 d2d3 g8f6 b1d2 f8e7 e2e4 e8g8 f1e1 d5d4 d2c4 d8c7 a2a4 c8e6 f3g5 e6c4",
    "e2e4 e7e5 g1f3 g8f6 f3e5 d7d6 e5f3 f6e4 d2d4 d6d5 f1d3 b8c6 e1g1 f8e7 c2c4 c6b4 d3e2 e8g8 b1c3 c8e6 a2a3 e4c3",
    "d2d4 f7f5 g2g3 g8f6 f1g2 e7e6 g1f3 f8e7 e1g1 e8g8 c2c4 d7d6 b1c3 d8e8 f1e1 e8g6 e2e4 f5e4 c3e4 f6e4 e1e4 b8c6",
];

/// Feature signature of a position (reference model only).
pub fn signature(p: &RefPos) -> u64 {
    let legal = p.legal_moves();
    let illegal = p.illegal_pseudo_moves();
    let chk = p.checkers();
    let kind_code = |s: Sq| match p.at(s).map(|x| x.0) {
        Some(Kind::P) => 1u64,
        Some(Kind::N) => 2,
        Some(Kind::B) => 3,
        Some(Kind::R) => 4,
        Some(Kind::Q) => 5,
        _ => 6,
    };
    let mut sig: u64 = p.stm as u64;
    // check: 0 none, single: kind code, double: 7 + pair code
    let c = match chk.len() {
        0 => 0,
        1 => kind_code(chk[0]),
        _ => 7 + kind_code(chk[0]) * 7 + kind_code(chk[1]),
    };
    sig = sig * 64 + c;
    // pins: count (0..3), kinds of the pinned men, directions of the pin lines
    let pins = p.pinned(p.stm);
    let ksq = p.king_sq(p.stm).unwrap_or(0);
    let mut kinds = 0u64;
    let mut dirs = 0u64;
    for s in pins.iter() {
        kinds |= 1 << (kind_code(*s) - 1);
        let (df, dr) = (file_of(*s) - file_of(ksq), rank_of(*s) - rank_of(ksq));
        dirs |= if df == 0 {
            1
        } else if dr == 0 {
            2
        } else if df == dr {
            4
        } else {
            8
        };
    }
    sig = sig * 4 + (pins.len().min(3) as u64);
    sig = sig * 32 + kinds;
    sig = sig * 16 + dirs;
    // en passant: none / double push without neighbour / neighbour but no legal capture / 1 / 2 legal captures
    let nep = legal.iter().filter(|m| p.is_ep(**m)).count();
    let ep = if p.dp < 0 {
        0
    } else if !p.ep_adjacent() {
        1
    } else if nep == 0 {
        2
    } else {
        2 + nep.min(2) as u64
    };
    sig = sig * 5 + ep;
    // castling: my rights, legal castles, opponent's rights
    let mine = (p.has_k(p.stm) as u64) | ((p.has_q(p.stm) as u64) << 1);
    let theirs = (p.has_k(p.stm.flip()) as u64) | ((p.has_q(p.stm.flip()) as u64) << 1);
    let mut can = 0u64;
    for m in legal.iter().filter(|m| p.is_castle(**m)) {
        can |= if file_of(m.to) == 6 { 1 } else { 2 };
    }
    sig = sig * 4 + mine;
    sig = sig * 4 + can;
    sig = sig * 4 + theirs;
    // promotions available: push, capture
    let mut promo = 0u64;
    for m in legal.iter().filter(|m| m.promo.is_some()) {
        promo |= if p.is_capture(*m) { 2 } else { 1 };
    }
    sig = sig * 4 + promo;
    // classes of pseudo-legal but illegal moves
    let mut ill = 0u64;
    for m in illegal.iter() {
        ill |= if p.is_ep(*m) {
            1
        } else if matches!(p.at(m.from), Some((Kind::K, _))) {
            2
        } else if pins.contains(&m.from) {
            4
        } else {
            8 // a non-king, non-pinned man that may not move: it does not resolve a check
        };
    }
    sig = sig * 16 + ill;
    // terminal?
    sig = sig * 2 + legal.is_empty() as u64;
    sig
}

/// Reference-only BFS below the base positions; one position per new signature.
pub fn generate_feature_roots(depth: u32, per_base_cap: usize) -> Vec<RefPos> {
    use rayon::prelude::*;
    let mut bases: Vec<RefPos> = vec![];
    for line in OPENING_LINES {
        let mut p = RefPos::from_fen("rnbqkbnr/pppppppp/8/8/8/8/PPPPPPPP/RNBQKBNR w KQkq - 0 1").unwrap();
        for (i, m) in line.split_whitespace().enumerate() {
            let mv = RMove::parse_uci(m).unwrap_or_else(|| panic!("machinery: bad opening move {m}"));
            assert!(p.legal_moves().contains(&mv), "machinery: opening move {m} illegal in {}", p.fen());
            p = p.apply(mv);
            if i >= 7 && i % 4 == 3 {
                bases.push(p);
            }
        }
    }
    bases.extend(roots().into_iter().filter(|r| r.pos.men() >= 7).map(|r| r.pos));
    // per base: BFS, collect for the first occurrence of every signature the PARENT position
    // (so that exploring one ply below the stored root reaches the representative through the
    // library's incremental move application, not only by construction from scratch)
    let found: Vec<Vec<(u64, RefPos)>> = bases
        .par_iter()
        .map(|b| {
            let mut seen_pos: BTreeSet<RefPos> = BTreeSet::new();
            let mut sigs: std::collections::BTreeMap<u64, RefPos> = std::collections::BTreeMap::new();
            let mut frontier: Vec<(RefPos, RefPos)> = vec![(*b, *b)];
            for _ in 0..=depth {
                let mut next = vec![];
                for (p, parent) in frontier.iter() {
                    if !seen_pos.insert(*p) {
                        continue;
                    }
                    sigs.entry(signature(p)).or_insert(*parent);
                    if seen_pos.len() < per_base_cap {
                        for m in p.legal_moves() {
                            next.push((p.apply(m), *p));
                        }
                    }
                }
                frontier = next;
            }
            sigs.into_iter().collect()
        })
        .collect();
    let mut all: std::collections::BTreeMap<u64, RefPos> = std::collections::BTreeMap::new();
    for v in found {
        for (s, p) in v {
            all.entry(s).or_insert(p);
        }
    }
    let mut out: Vec<RefPos> = all.into_values().collect();
    out.sort();
    out.dedup();
    out
}

/// The stored feature roots (harness/feature_roots.txt), each validated by the reference.
pub fn feature_roots() -> Vec<RefPos> {
    let txt = include_str!("../feature_roots.txt");
    let mut out = vec![];
    for line in txt.lines() {
        let line = line.trim();
        if line.is_empty() || line.starts_with('#') {
            continue;
        }
        let p = RefPos::from_fen(line).unwrap_or_else(|e| panic!("machinery: bad feature root {line}: {e}"));
        if let Some(r) = p.invalid_reason() {
            panic!("machinery: feature root {line} invalid: {r}");
        }
        out.push(p);
    }
    out
}

// ------------------------------------------------------------------------------------------
// Terminal-position constructions (C04): every checkmate / stalemate of the complete 3-man sets
// in which the lone king's side is to move serves as a base; men are added around the boxed
// king so that rich terminal and near-terminal positions arise by construction.

/// All terminal positions (no legal move) of K+X v K with the lone king to move.
pub fn bare_king_terminals() -> Vec<RefPos> {
    let mut out = vec![];
    for f in three_man_families() {
        if f.men.is_empty() {
            continue;
        }
        let owner = f.men[0].1;
        out.extend(collect(&f).into_iter().filter(|p| p.stm != owner && p.legal_moves().is_empty()));
    }
    out
}

const DIRS8: [(i8, i8); 8] = [(1, 0), (1, 1), (0, 1), (-1, 1), (-1, 0), (-1, -1), (0, -1), (1, -1)];

/// One way of pinning a man of the side to move to its king: direction from the king, distance
/// of the pinned man, kind of the pinned man, distance of the pinner, kind of the pinner.
#[derive(Clone, Copy)]
pub struct PinSpec {
    dir: usize,
    d1: i8,
    kind: Kind,
    d2: i8,
    pinner: Kind,
}
pub fn pin_specs() -> Vec<PinSpec> {
    let mut v = vec![];
    for dir in 0..8 {
        for d1 in 1..=2i8 {
            for d2 in (d1 + 1)..=(d1 + 2) {
                for kind in [Kind::P, Kind::N, Kind::B, Kind::R, Kind::Q] {
                    let orth = dir % 2 == 0;
                    for pinner in [if orth { Kind::R } else { Kind::B }, Kind::Q] {
                        v.push(PinSpec { dir, d1, kind, d2, pinner });
                    }
                }
            }
        }
    }
    v
}
fn apply_pin(p: &mut RefPos, ksq: Sq, me: Col, s: &PinSpec) -> bool {
    let (df, dr) = DIRS8[s.dir];
    let (f, r) = (file_of(ksq), rank_of(ksq));
    let a = (f + df * s.d1, r + dr * s.d1);
    let b = (f + df * s.d2, r + dr * s.d2);
    if !on_board(a.0, a.1) || !on_board(b.0, b.1) {
        return false;
    }
    // squares between king and pinner other than the pinned man's must be empty
    for d in 1..s.d2 {
        if d != s.d1 && p.at(sq(f + df * d, r + dr * d)).is_some() {
            return false;
        }
    }
    place(p, sq(a.0, a.1), s.kind, me) && place(p, sq(b.0, b.1), s.pinner, me.flip())
}

/// Pairs of different positions whose library hashes agree in a TRUNCATION of the 64-bit key (low 32,
/// high 32, low 16, xor-folded 32 bits): a memo inside the library that is keyed by a narrowed hash
/// confuses exactly such positions when they are asked about one after the other.  Source: all 3-man
/// positions and the en-passant family (about 4 M positions); up to `per_kind` pairs per truncation.
pub fn hash_collision_pairs(per_kind: usize) -> Vec<(RefPos, RefPos, &'static str)> {
    hash_collision_pairs_from(per_kind, false)
}
/// `big`: also all placements of K+Q v K+R (17 M more positions), enough for a few hundred pairs that
/// agree in 40 bits (an 8-bit slot index plus a 32-bit signature)
pub fn hash_collision_pairs_from(per_kind: usize, big: bool) -> Vec<(RefPos, RefPos, &'static str)> {
    use rayon::prelude::*;
    let mut all: Vec<RefPos> = vec![];
    for f in three_man_families() {
        all.extend(collect(&f));
    }
    all.extend(collect(&EpFamily { extra: Extra::None, pre_push: false }));
    let hashed: Vec<(u64, RefPos)> = all.par_iter().filter_map(|p| crate::bridge::from_scratch(p).ok().map(|b| (b.get_hash(), *p))).collect();
    let mut out = vec![];
    let kinds: [(&'static str, fn(u64) -> u64); 8] = [("low 32 bits", |h| h & 0xFFFF_FFFF), ("high 32 bits", |h| h >> 32), ("low 16 bits", |h| h & 0xFFFF), ("low 24 bits", |h| h & 0xFF_FFFF), ("xor-folded 32 bits", |h| (h ^ (h >> 32)) & 0xFFFF_FFFF), ("high 32 bits and low 8 bits", |h| (h >> 32 << 8) | (h & 0xFF)), ("high 16 bits and low 16 bits", |h| (h >> 48 << 16) | (h & 0xFFFF)), ("high 32 bits of the key multiplied by the 64-bit golden-ratio constant (Fibonacci hashing)", |h| h.wrapping_mul(0x9E37_79B9_7F4A_7C15) >> 32)];
    for (name, f) in kinds {
        let mut v: Vec<(u64, u64, RefPos)> = hashed.iter().map(|(h, p)| (f(*h), *h, *p)).collect();
        v.par_sort_unstable_by_key(|x| (x.0, x.1));
        let mut n = 0;
        let mut i = 0;
        while i + 1 < v.len() && n < per_kind {
            if v[i].0 == v[i + 1].0 && v[i].1 != v[i + 1].1 {
                out.push((v[i].2, v[i + 1].2, name));
                out.push((v[i + 1].2, v[i].2, name));
                n += 1;
                i += 2;
            } else {
                i += 1;
            }
        }
        if std::env::var("CV_DEBUG_PAIRS").is_ok() {
            eprintln!("hash_collision_pairs: {name}: {n} pairs among {} positions", hashed.len());
        }
    }
    if big {
        out.extend(wide_collision_pairs(per_kind));
    }
    out
}

/// Agreements in 40 bits (a 32-bit signature plus an 8-bit slot index) need tens of millions of positions.
/// For K+Q v K+R (33 M placements x side) the library's key of a placement is predicted from per-square key
/// differences observed on three-man positions (hash(with the man) ^ hash(without)), candidates are found
/// by sorting the predicted keys, and every candidate pair is then CONFIRMED on the real library: both
/// positions must be valid, constructible and their real hashes must agree in the 40 bits.  If the library's
/// hash is not XOR-structured the predictions are wrong and no pair is confirmed (nothing is assumed).
fn wide_collision_pairs(per_kind: usize) -> Vec<(RefPos, RefPos, &'static str)> {
    use rayon::prelude::*;
    let h = |p: &RefPos| crate::bridge::from_scratch(p).ok().map(|b| b.get_hash());
    let base = |wk: Sq, bk: Sq, stm: Col| {
        let mut p = RefPos::empty();
        p.put(wk, Kind::K, Col::W);
        p.put(bk, Kind::K, Col::B);
        p.stm = stm;
        p
    };
    // reference corner kings; a second pair of squares for probes that collide with the first
    let (a1, h8, a8, h1) = (sq(0, 0), sq(7, 7), sq(0, 7), sq(7, 0));
    let key_of = |kind: Kind, col: Col, s: Sq| -> Option<u64> {
        // the man's owner is to move, so that it may attack the enemy king
        for (wk, bk) in [(a1, h8), (h1, a8), (a8, h1), (h8, a1)] {
            if s == wk || s == bk {
                continue;
            }
            let b0 = base(wk, bk, col);
            let mut b1 = b0;
            b1.put(s, kind, col);
            if let (true, true, Some(x), Some(y)) = (b0.is_valid(), b1.is_valid(), h(&b0), h(&b1)) {
                return Some(x ^ y);
            }
        }
        None
    };
    let kq: Vec<Option<u64>> = (0..64u8).map(|s| key_of(Kind::Q, Col::W, s)).collect();
    let kr: Vec<Option<u64>> = (0..64u8).map(|s| key_of(Kind::R, Col::B, s)).collect();
    // king keys relative to a1 / h8
    let kw: Vec<Option<u64>> = (0..64u8).map(|s| if s == a1 { Some(0) } else { let (p0, p1) = (base(a1, h8, Col::W), base(s, h8, Col::W)); if s != h8 && p1.is_valid() { Some(h(&p0)? ^ h(&p1)?) } else { None } }).collect();
    let kb: Vec<Option<u64>> = (0..64u8).map(|s| if s == h8 { Some(0) } else { let (p0, p1) = (base(a1, h8, Col::W), base(a1, s, Col::W)); if s != a1 && p1.is_valid() { Some(h(&p0)? ^ h(&p1)?) } else { None } }).collect();
    let side = match (h(&base(a1, h8, Col::W)), h(&base(a1, h8, Col::B))) {
        (Some(x), Some(y)) => x ^ y,
        _ => return vec![],
    };
    let trunc = |x: u64| (x >> 32 << 8) | (x & 0xFF);
    let mut v: Vec<(u64, u32)> = (0..64u32 * 64 * 64)
        .into_par_iter()
        .flat_map_iter(|i| {
            let (wk, bk, q) = ((i & 63) as usize, ((i >> 6) & 63) as usize, ((i >> 12) & 63) as usize);
            let mut out = vec![];
            if let (Some(a), Some(b), Some(c)) = (kw[wk], kb[bk], kq[q]) {
                if wk != bk && wk != q && bk != q {
                    for r in 0..64usize {
                        if r != wk && r != bk && r != q {
                            if let Some(d) = kr[r] {
                                let x = a ^ b ^ c ^ d;
                                let code = (i << 7) | ((r as u32) << 1);
                                out.push((trunc(x), code));
                                out.push((trunc(x ^ side), code | 1));
                            }
                        }
                    }
                }
            }
            out
        })
        .collect();
    v.par_sort_unstable();
    let decode = |code: u32| {
        let i = code >> 7;
        let mut p = RefPos::empty();
        p.put((i & 63) as u8, Kind::K, Col::W);
        p.put(((i >> 6) & 63) as u8, Kind::K, Col::B);
        p.put(((i >> 12) & 63) as u8, Kind::Q, Col::W);
        p.put(((code >> 1) & 63) as u8, Kind::R, Col::B);
        p.stm = if code & 1 == 1 { Col::B } else { Col::W };
        p
    };
    let mut out = vec![];
    let mut i = 0;
    let mut confirmed = 0;
    while i + 1 < v.len() && confirmed < per_kind {
        if v[i].0 == v[i + 1].0 {
            let (p1, p2) = (decode(v[i].1), decode(v[i + 1].1));
            if p1 != p2 && p1.is_valid() && p2.is_valid() {
                if let (Some(x), Some(y)) = (h(&p1), h(&p2)) {
                    if x != y && trunc(x) == trunc(y) {
                        out.push((p1, p2, "high 32 bits and low 8 bits (K+Q v K+R)"));
                        out.push((p2, p1, "high 32 bits and low 8 bits (K+Q v K+R)"));
                        confirmed += 1;
                    }
                }
            }
            i += 2;
        } else {
            i += 1;
        }
    }
    if std::env::var("CV_DEBUG_PAIRS").is_ok() {
        eprintln!("wide_collision_pairs: {confirmed} confirmed pairs among {} predicted keys", v.len());
    }
    out
}

/// Every curated root under every OTHER valid castling-rights set of its placement (subsets of the rights that
/// king and rooks at home allow) and with the other side to move: same men, another state.
pub fn state_sibling_family() -> ListFamily {
    let mut items = vec![];
    for r in roots() {
        let p = r.pos;
        let mut maxr = 0u8;
        for (bit, col, rf) in [(WK, Col::W, 7i8), (WQ, Col::W, 0), (BK, Col::B, 7), (BQ, Col::B, 0)] {
            let hr = col.home_rank();
            if p.at(sq(4, hr)) == Some((Kind::K, col)) && p.at(sq(rf, hr)) == Some((Kind::R, col)) {
                maxr |= bit;
            }
        }
        for rights in 0..16u8 {
            if rights & !maxr != 0 {
                continue;
            }
            for flip in [false, true] {
                let mut q = p;
                q.castle = rights;
                if flip {
                    q.stm = p.stm.flip();
                    q.dp = -1;
                }
                if q != p && q.is_valid() {
                    items.push(q);
                }
            }
        }
    }
    items.sort();
    items.dedup();
    ListFamily { label: "state siblings of the curated roots: every other valid castling-rights set of the same placement, either side to move".into(), items }
}

/// Terminal and nearly terminal positions in which the side to move has men of its own that cannot move:
/// K + X + P v K + p with the two pawns blocking each other on one file (X in Q, R, B, N anywhere, both kings
/// anywhere, both colours), kept when the side that owns X is to move and has at most ONE legal move
/// (mates, stalemates, only-move positions).  Complete for that material class.
pub fn blocked_pawn_terminals() -> ListFamily {
    // generated offline by `cv --gen-blocked-terminals` (reference model only) and stored, like the feature roots
    let mut items = vec![];
    for line in include_str!("../blocked_terminals.txt").lines() {
        let line = line.trim();
        if line.is_empty() || line.starts_with('#') {
            continue;
        }
        let p = RefPos::from_fen(line).unwrap_or_else(|e| panic!("machinery: blocked_terminals.txt: {line}: {e}"));
        assert!(p.is_valid() && p.legal_moves().len() <= 1, "machinery: blocked_terminals.txt: {line} is not a valid at-most-one-move position");
        items.push(p);
    }
    ListFamily { label: "K+X+P v K+p with the pawns blocking each other (X = Q, R, B, N anywhere; kings anywhere; both colours): every position in which the owner of X is to move and has at most one legal move".into(), items }
}
pub fn generate_blocked_pawn_terminals() -> ListFamily {
    use rayon::prelude::*;
    let jobs: Vec<(Kind, i8, i8, Col)> = [Kind::Q, Kind::R, Kind::B, Kind::N].into_iter().flat_map(|k| (0..8i8).flat_map(move |f| (1..6i8).flat_map(move |r| [Col::W, Col::B].into_iter().map(move |c| (k, f, r, c))))).collect();
    let items: Vec<RefPos> = jobs
        .par_iter()
        .flat_map_iter(|(kind, f, r, me)| {
            let mut out = vec![];
            // white pawn on (f, r), black pawn on (f, r + 1): blocked both ways
            let mut base = RefPos::empty();
            base.stm = *me;
            base.put(sq(*f, *r), Kind::P, Col::W);
            base.put(sq(*f, r + 1), Kind::P, Col::B);
            for mk in 0..64u8 {
                let mut p1 = base;
                if !place(&mut p1, mk, Kind::K, *me) {
                    continue;
                }
                for ek in 0..64u8 {
                    let mut p2 = p1;
                    if !place(&mut p2, ek, Kind::K, me.flip()) {
                        continue;
                    }
                    let (df, dr) = ((file_of(mk) - file_of(ek)).abs(), (rank_of(mk) - rank_of(ek)).abs());
                    if df <= 1 && dr <= 1 {
                        continue;
                    }
                    for xs in 0..64u8 {
                        let mut p3 = p2;
                        if !place(&mut p3, xs, *kind, *me) {
                            continue;
                        }
                        if p3.is_valid() && p3.legal_moves().len() <= 1 {
                            out.push(p3);
                        }
                    }
                }
            }
            out
        })
        .collect();
    ListFamily { label: "K+X+P v K+p with the pawns blocking each other (X = Q, R, B, N anywhere; kings anywhere; both colours): every position in which the owner of X is to move and has at most one legal move".into(), items }
}

/// A family given by an explicit list.
pub struct ListFamily {
    pub label: String,
    pub items: Vec<RefPos>,
}
impl Family for ListFamily {
    fn name(&self) -> String {
        self.label.clone()
    }
    fn size(&self) -> u64 {
        self.items.len() as u64
    }
    fn get(&self, i: u64) -> Option<RefPos> {
        self.items.get(i as usize).copied()
    }
}

/// Rank patterns: for every rank and every one of its 256 occupancy patterns, knights (all white, all
/// black, alternating) on the occupied squares, the kings four ranks away in the corners of their
/// rank; both sides to move.  Every run-length shape a FEN rank can have, on every rank.
pub fn rank_pattern_family() -> ListFamily {
    let mut items = vec![];
    for r in 0..8i8 {
        let kr = (r + 4) % 8;
        for mask in 0..256u32 {
            for colouring in 0..3 {
                let mut p = RefPos::empty();
                let mut n = 0;
                for f in 0..8i8 {
                    if mask & (1 << f) != 0 {
                        let c = match colouring {
                            0 => Col::W,
                            1 => Col::B,
                            _ => {
                                if n % 2 == 0 {
                                    Col::W
                                } else {
                                    Col::B
                                }
                            }
                        };
                        p.put(sq(f, r), Kind::N, c);
                        n += 1;
                    }
                }
                p.put(sq(0, kr), Kind::K, Col::W);
                p.put(sq(7, kr), Kind::K, Col::B);
                for stm in [Col::W, Col::B] {
                    let mut q = p;
                    q.stm = stm;
                    if q.is_valid() {
                        items.push(q);
                    }
                }
            }
        }
    }
    items.sort();
    items.dedup();
    ListFamily { label: "rank patterns: every rank x all 256 occupancy patterns (knights of one or alternating colours), kings four ranks away, both sides to move".into(), items }
}

/// Line geometry around a king: the king of one side on every square; on one ray (or on every
/// unordered pair of rays) a man of its own at distance i, an enemy slider at distance j > i and
/// optionally further enemy sliders behind it (a battery) at l > j (and m > l on single rays);
/// sliders of every kind (a rook on a diagonal pins nothing); squares in between empty.  The other
/// king goes to the first square of a fixed list that gives a valid position; both sides to move.
/// `rich`: first man in {own N, P, Q, R, B; enemy N, P} (else own N), pinner in {R, B, Q} (else the fitting kind and Q).
pub fn line_family(two_rays: bool, rich: bool) -> ListFamily {
    use rayon::prelude::*;
    #[derive(Clone)]
    struct RayFill(Vec<(Sq, Kind, bool)>); // (square, kind, own?)
    // first man on the ray: (kind, own?) — rich: any own man, or an ENEMY knight / pawn (no pin: a
    // discovered-check battery of the other side)
    let own_kinds: &[(Kind, bool)] = if rich { &[(Kind::N, true), (Kind::P, true), (Kind::Q, true), (Kind::R, true), (Kind::B, true), (Kind::N, false), (Kind::P, false)] } else { &[(Kind::N, true)] };
    let fills = |k: Sq, dir: usize, triple: bool| -> Vec<RayFill> {
        let (df, dr) = DIRS8[dir];
        let mut ray = vec![];
        let (mut f, mut r) = (file_of(k) + df, rank_of(k) + dr);
        while on_board(f, r) {
            ray.push(sq(f, r));
            f += df;
            r += dr;
        }
        let fit = if dir % 2 == 0 { Kind::R } else { Kind::B };
        let sl: Vec<Kind> = if rich { vec![Kind::R, Kind::B, Kind::Q] } else { vec![fit, Kind::Q] };
        let mut out = vec![];
        for i in 0..ray.len() {
            for (ok, own) in own_kinds {
                if *ok == Kind::P && (rank_of(ray[i]) == 0 || rank_of(ray[i]) == 7) {
                    continue;
                }
                for j in (i + 1)..ray.len() {
                    for k1 in sl.iter() {
                        out.push(RayFill(vec![(ray[i], *ok, *own), (ray[j], *k1, false)]));
                        for l in (j + 1)..ray.len() {
                            for k2 in sl.iter() {
                                out.push(RayFill(vec![(ray[i], *ok, *own), (ray[j], *k1, false), (ray[l], *k2, false)]));
                                if triple {
                                    for m in (l + 1)..ray.len() {
                                        out.push(RayFill(vec![(ray[i], *ok, *own), (ray[j], *k1, false), (ray[l], *k2, false), (ray[m], *k2, false)]));
                                    }
                                }
                            }
                        }
                    }
                }
            }
        }
        out
    };
    let finish = |k: Sq, me: Col, men: &[&RayFill]| -> Vec<RefPos> {
        let mut p = RefPos::empty();
        p.put(k, Kind::K, me);
        for rf in men {
            for (s, kind, own) in rf.0.iter() {
                if !place(&mut p, *s, *kind, if *own { me } else { me.flip() }) {
                    return vec![];
                }
            }
        }
        let mut out = vec![];
        for stm in [me, me.flip()] {
            for ok in [63u8, 56, 7, 0, 60, 4, 31, 24, 36, 27] {
                let mut q = p;
                q.stm = stm;
                if place(&mut q, ok, Kind::K, me.flip()) && q.is_valid() {
                    out.push(q);
                    break;
                }
            }
        }
        out
    };
    let jobs: Vec<(Sq, Col)> = (0..64u8).flat_map(|k| [(k, Col::W), (k, Col::B)]).collect();
    let items: Vec<RefPos> = jobs
        .par_iter()
        .flat_map_iter(|(k, me)| {
            let per_dir: Vec<Vec<RayFill>> = (0..8).map(|d| fills(*k, d, !two_rays)).collect();
            let mut out = vec![];
            if two_rays {
                for d1 in 0..8 {
                    for d2 in (d1 + 1)..8 {
                        for a in per_dir[d1].iter() {
                            for b in per_dir[d2].iter() {
                                out.extend(finish(*k, *me, &[a, b]));
                            }
                        }
                    }
                }
            } else {
                for d in 0..8 {
                    for a in per_dir[d].iter() {
                        out.extend(finish(*k, *me, &[a]));
                    }
                }
            }
            out
        })
        .collect();
    ListFamily {
        label: format!(
            "line geometry around a king: every king square x {} x (own man{}, enemy slider{}, optional battery behind it{}), both sides to move",
            if two_rays { "every pair of rays" } else { "every ray" },
            if rich { " N/P/Q/R/B or an enemy N/P" } else { " N" },
            if rich { " R/B/Q" } else { " of the fitting kind or Q" },
            if two_rays { "" } else { " up to three deep" }
        ),
        items,
    }
}

/// Terminal base + one or two pinned men (with their pinners) of the boxed side.
pub struct PinnedTerminalFamily {
    pub bases: Vec<RefPos>,
    pub specs: Vec<PinSpec>,
    pub two: bool,
}
impl Family for PinnedTerminalFamily {
    fn name(&self) -> String {
        format!("bare-king mates and stalemates of the 3-man sets ({} bases) with {} pinned man/men and pinner(s) added next to the boxed king", self.bases.len(), if self.two { "two" } else { "one" })
    }
    fn size(&self) -> u64 {
        let n = self.specs.len() as u64;
        self.bases.len() as u64 * if self.two { n * n } else { n }
    }
    fn get(&self, mut i: u64) -> Option<RefPos> {
        let n = self.specs.len() as u64;
        let s1 = take(&mut i, n) as usize;
        let s2 = if self.two { Some(take(&mut i, n) as usize) } else { None };
        let mut p = self.bases[i as usize];
        let me = p.stm;
        let ksq = p.king_sq(me)?;
        if let Some(s2) = s2 {
            // unordered pairs on different lines only
            if s2 <= s1 || self.specs[s1].dir == self.specs[s2].dir {
                return None;
            }
        }
        if !apply_pin(&mut p, ksq, me, &self.specs[s1]) {
            return None;
        }
        if let Some(s2) = s2 {
            if !apply_pin(&mut p, ksq, me, &self.specs[s2]) {
                return None;
            }
        }
        valid(p)
    }
}

/// Terminal base + an en-passant pattern with a capturer on BOTH sides of the pushed pawn: each
/// capturer's own push square empty or blocked (enemy pawn / knight), and one enemy slider
/// anywhere (it may pin either capturer on a file, rank or diagonal, or neither).
pub struct EpTerminalTwoFamily {
    pub bases: Vec<RefPos>,
}
impl Family for EpTerminalTwoFamily {
    fn name(&self) -> String {
        format!("bare-king mates and stalemates ({} bases) with a two-capturer en-passant pattern of the boxed side added (two pawns, double-pushed enemy pawn between them, optional blockers of the push squares, optional enemy slider anywhere)", self.bases.len())
    }
    fn size(&self) -> u64 {
        self.bases.len() as u64 * 6 * 3 * 3 * Extra::EnemySlider.n()
    }
    fn get(&self, mut i: u64) -> Option<RefPos> {
        let f = 1 + take(&mut i, 6) as i8;
        let b1 = take(&mut i, 3);
        let b2 = take(&mut i, 3);
        let ex = take(&mut i, Extra::EnemySlider.n());
        let mut p = self.bases[i as usize];
        let me = p.stm;
        let pusher = me.flip();
        let r = pusher.dp_rank();
        if !place(&mut p, sq(f, r), Kind::P, pusher) || !place(&mut p, sq(f - 1, r), Kind::P, me) || !place(&mut p, sq(f + 1, r), Kind::P, me) {
            return None;
        }
        for (b, df) in [(b1, -1i8), (b2, 1i8)] {
            if b > 0 && !place(&mut p, sq(f + df, r + me.dir()), if b == 1 { Kind::P } else { Kind::N }, pusher) {
                return None;
            }
        }
        if let Some((k, c, s)) = Extra::EnemySlider.get(ex, pusher) {
            if !place(&mut p, s, k, c) {
                return None;
            }
        }
        p.dp = f;
        valid(p)
    }
}

/// Terminal base + an en-passant pattern of the boxed side: its pawn beside a just double-pushed
/// enemy pawn, the pawn's own push square empty or blocked by an enemy man, and optionally an
/// enemy bishop / queen further along the capture diagonal.
pub struct EpTerminalFamily {
    pub bases: Vec<RefPos>,
}
impl Family for EpTerminalFamily {
    fn name(&self) -> String {
        format!("bare-king mates and stalemates ({} bases) with an en-passant pattern of the boxed side added (pawn, double-pushed enemy pawn, optional blocker of the push square, optional slider on the capture diagonal)", self.bases.len())
    }
    fn size(&self) -> u64 {
        self.bases.len() as u64 * 8 * 2 * 6 * 3 * 5
    }
    fn get(&self, mut i: u64) -> Option<RefPos> {
        let f = take(&mut i, 8) as i8;
        let d = if take(&mut i, 2) == 0 { -1i8 } else { 1 };
        let blocker = take(&mut i, 6);
        let slider = take(&mut i, 3);
        let dist = take(&mut i, 5) as i8 + 1;
        let mut p = self.bases[i as usize];
        let me = p.stm;
        let pusher = me.flip();
        let r = pusher.dp_rank();
        if !(0..8).contains(&(f + d)) {
            return None;
        }
        // pushed enemy pawn on file f, my pawn on file f + d, same rank
        if !place(&mut p, sq(f, r), Kind::P, pusher) || !place(&mut p, sq(f + d, r), Kind::P, me) {
            return None;
        }
        if blocker > 0 {
            let k = [Kind::P, Kind::N, Kind::B, Kind::R, Kind::Q][(blocker - 1) as usize];
            if !place(&mut p, sq(f + d, r + me.dir()), k, pusher) {
                return None;
            }
        }
        if slider > 0 {
            // along the capture direction beyond the target square
            let (tf, tr) = (f, r + me.dir());
            let (sf, sr) = (tf - d * dist, tr + me.dir() * dist);
            if dist == 0 || !on_board(sf, sr) {
                return None;
            }
            if !place(&mut p, sq(sf, sr), if slider == 1 { Kind::B } else { Kind::Q }, pusher) {
                return None;
            }
        } else if dist != 1 {
            return None;
        }
        p.dp = f;
        valid(p)
    }
}
