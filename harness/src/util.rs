//! Small shared utilities: 128-bit fingerprints and a sharded concurrent map.

use std::collections::hash_map::DefaultHasher;
use std::collections::HashMap;
use std::hash::{Hash, Hasher};
use std::sync::Mutex;

/// 128-bit fingerprint (two SipHash passes with different prefixes; fixed keys, so deterministic).
pub fn fp128<T: Hash>(t: &T) -> u128 {
    let mut a = DefaultHasher::new();
    0x9e37_79b9_7f4a_7c15u64.hash(&mut a);
    t.hash(&mut a);
    let mut b = DefaultHasher::new();
    0xc2b2_ae3d_27d4_eb4fu64.hash(&mut b);
    t.hash(&mut b);
    ((a.finish() as u128) << 64) | b.finish() as u128
}
pub fn fp64<T: Hash>(t: &T) -> u64 {
    let mut a = DefaultHasher::new();
    t.hash(&mut a);
    a.finish()
}

pub enum Seen<V> {
    New,
    Same,
    Differs(V),
}

pub struct ShardMap<K, V> {
    shards: Vec<Mutex<HashMap<K, V>>>,
}
impl<K: Hash + Eq + Copy, V: Copy + PartialEq> ShardMap<K, V> {
    pub fn new() -> Self {
        ShardMap { shards: (0..256).map(|_| Mutex::new(HashMap::new())).collect() }
    }
    /// Insert (k, v) unless k is present.
    pub fn insert_check(&self, k: K, v: V) -> Seen<V> {
        let i = (fp64(&k) >> 56) as usize;
        let mut m = self.shards[i].lock().unwrap();
        match m.get(&k) {
            Some(old) if *old != v => Seen::Differs(*old),
            Some(_) => Seen::Same,
            None => {
                m.insert(k, v);
                Seen::New
            }
        }
    }
    pub fn len(&self) -> usize {
        self.shards.iter().map(|s| s.lock().unwrap().len()).sum()
    }
}
