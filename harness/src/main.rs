mod bridge;
mod engine;
mod guard;
mod props;
mod refmodel;
mod run;
mod universe;
mod util;

use refmodel::*;
use run::{Run, Tier};
use serde_json::Value;

/// Published perft values (literature constants, not produced by the library under test).
const PERFT: &[(&str, &[u64])] = &[
    ("rnbqkbnr/pppppppp/8/8/8/8/PPPPPPPP/RNBQKBNR w KQkq - 0 1", &[20, 400, 8902, 197281, 4865609]),
    ("r3k2r/p1ppqpb1/bn2pnp1/3PN3/1p2P3/2N2Q1p/PPPBBPPP/R3K2R w KQkq - 0 1", &[48, 2039, 97862, 4085603]),
    ("8/2p5/3p4/KP5r/1R3p1k/8/4P1P1/8 w - - 0 1", &[14, 191, 2812, 43238, 674624, 11030083]),
    ("r3k2r/Pppp1ppp/1b3nbN/nP6/BBP1P3/q4N2/Pp1P2PP/R2Q1RK1 w kq - 0 1", &[6, 264, 9467, 422333]),
    ("rnbq1k1r/pp1Pbppp/2p5/8/2B5/8/PPP1NnPP/RNBQK2R w KQ - 1 8", &[44, 1486, 62379, 2103487]),
    ("r4rk1/1pp1qppp/p1np1n2/2b1p1B1/2B1P1b1/P1NP1N2/1PP1QPPP/R4RK1 w - - 0 10", &[46, 2079, 89890, 3894594]),
];

/// Reference self-test: published perft constants (to `depth_cut` plies) and mirror consistency.
fn selftest(full: bool) -> bool {
    use rayon::prelude::*;
    let mut ok = true;
    let jobs: Vec<(&str, usize, u64)> = PERFT.iter().flat_map(|(f, e)| e.iter().enumerate().map(move |(i, v)| (*f, i + 1, *v))).filter(|(_, d, v)| full || (*d <= 3 || *v < 700_000)).collect();
    let res: Vec<bool> = jobs
        .par_iter()
        .map(|(f, d, v)| {
            let p = RefPos::from_fen(f).unwrap();
            let got = p.perft(*d as u32);
            let got_m = p.mirror_v().perft(*d as u32);
            if got != *v || got_m != *v {
                eprintln!("reference self-test FAILED: {f} depth {d}: reference {got}, mirrored {got_m}, published {v}");
                false
            } else {
                true
            }
        })
        .collect();
    ok &= res.iter().all(|x| *x);
    // mirror self-consistency of the move lists on all roots
    for r in universe::roots() {
        let a: Vec<RMove> = r.pos.legal_moves().into_iter().map(mirror_v_move).collect();
        let mut a = a;
        a.sort();
        if a != r.pos.mirror_v().legal_moves() {
            eprintln!("reference self-test FAILED: colour mirror inconsistency at {}", r.pos.fen());
            ok = false;
        }
        if r.pos.castle == 0 {
            let mut b: Vec<RMove> = r.pos.legal_moves().into_iter().map(mirror_h_move).collect();
            b.sort();
            if b != r.pos.mirror_h().legal_moves() {
                eprintln!("reference self-test FAILED: left-right mirror inconsistency at {}", r.pos.fen());
                ok = false;
            }
        }
    }
    ok
}

pub fn replay_verdict(run: &Run) -> i32 {
    let vs = run.violations();
    if vs.is_empty() {
        println!("replay: no violation reproduced");
        0
    } else {
        for v in vs.iter() {
            println!("replay: {} — {}", v.signature, v.detail);
        }
        1
    }
}

fn usage() -> ! {
    eprintln!("usage: cv <C01..C20> <quick|thorough> | cv --replay <file> | cv --selftest");
    std::process::exit(2);
}

fn main() {
    let args: Vec<String> = std::env::args().collect();
    if args.len() < 2 {
        usage();
    }
    let verif_dir = std::env::var("VERIF_DIR").unwrap_or_else(|_| "/verif".to_string());
    if args[1] == "--selftest" {
        guard::install("selftest", &verif_dir);
        let ok = selftest(true);
        println!("reference self-test: {}", if ok { "ok" } else { "FAILED" });
        std::process::exit(if ok { 0 } else { 2 });
    }
    if args[1] == "--replay" {
        let path = args.get(2).cloned().unwrap_or_else(|| usage());
        let txt = std::fs::read_to_string(&path).unwrap_or_else(|e| {
            eprintln!("machinery: cannot read {path}: {e}");
            std::process::exit(2)
        });
        let v: Value = serde_json::from_str(&txt).unwrap_or_else(|e| {
            eprintln!("machinery: bad replay file: {e}");
            std::process::exit(2)
        });
        let prop = v["property"].as_str().unwrap_or("").to_string();
        guard::install(&prop, &verif_dir);
        // replay twice: identical observations are required
        let r1 = dispatch_replay(&prop, &v["case"]);
        let r2 = dispatch_replay(&prop, &v["case"]);
        if r1 != r2 {
            eprintln!("machinery: replay diverged between two runs ({r1} vs {r2})");
            std::process::exit(2);
        }
        std::process::exit(r1);
    }
    let id = args[1].clone();
    if id == "C15-bmi2-worker" {
        let tier = if args.get(2).map(|s| s.as_str()) == Some("thorough") { Tier::Thorough } else { Tier::Quick };
        guard::install("C15", &verif_dir);
        std::process::exit(props::c15::worker(tier));
    }
    let tier = match args.get(2).map(|s| s.as_str()) {
        Some("quick") => Tier::Quick,
        Some("thorough") => Tier::Thorough,
        _ => usage(),
    };
    std::env::set_var("VERIF_TIER", tier.name());
    guard::install(&id, &verif_dir);
    if !selftest(false) {
        eprintln!("MACHINERY FAILURE: reference self-test failed");
        std::process::exit(2);
    }
    let code = std::panic::catch_unwind(|| dispatch(&id, tier)).unwrap_or_else(|_| {
        eprintln!("MACHINERY FAILURE: panic in the harness");
        2
    });
    std::process::exit(code);
}

fn dispatch(id: &str, tier: Tier) -> i32 {
    match id {
        "C01" => props::c01::run(tier),
        "C02" => props::c02::run(tier),
        "C03" => props::c03::run(tier),
        "C04" => props::c04::run(tier),
        "C05" => props::c05::run(tier),
        "C06" => props::c06::run(tier),
        "C07" => props::c07::run(tier),
        "C08" => props::c08::run(tier),
        "C09" => props::c09::run(tier),
        "C10" => props::c10::run(tier),
        "C11" => props::c11::run(tier),
        "C12" => props::c12::run(tier),
        "C13" => props::c13::run(tier),
        "C14" => props::c14::run(tier),
        "C15" => props::c15::run(tier),
        "C16" => props::c16::run(tier),
        "C19" => props::c19::run(tier),
        "C20" => props::c20::run(tier),
        "C17" => props::c17::run(tier),
        "C18" => props::c18::run(tier),
        _ => {
            eprintln!("unknown property {id}");
            2
        }
    }
}
fn dispatch_replay(id: &str, case: &Value) -> i32 {
    match id {
        "C01" => props::c01::replay(case),
        "C02" => props::c02::replay(case),
        "C03" => props::c03::replay(case),
        "C04" => props::c04::replay(case),
        "C05" => props::c05::replay(case),
        "C06" => props::c06::replay(case),
        "C07" => props::c07::replay(case),
        "C08" => props::c08::replay(case),
        "C09" => props::c09::replay(case),
        "C10" => props::c10::replay(case),
        "C11" => props::c11::replay(case),
        "C12" => props::c12::replay(case),
        "C13" => props::c13::replay(case),
        "C14" => props::c14::replay(case),
        "C15" => props::c15::replay(case),
        "C16" => props::c16::replay(case),
        "C19" => props::c19::replay(case),
        "C20" => props::c20::replay(case),
        "C17" => props::c17::replay(case),
        "C18" => props::c18::replay(case),
        _ => {
            eprintln!("unknown property {id}");
            2
        }
    }
}
