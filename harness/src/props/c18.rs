//! C18 — null move: refused in check, otherwise only passes the turn.

use super::common::*;
use crate::bridge::*;
use crate::engine::plan::*;
use crate::engine::posgraph::*;
use crate::guard;
use crate::run::{Run, Tier};
use serde_json::{json, Value};
use std::sync::atomic::Ordering;

pub const COUNTERS: &[&str] = &["null_refused_in_check", "null_applied", "null_applied_with_ep_state", "null_after_null", "null_result_has_pins", "null_result_compared_from_scratch"];

pub struct C18;

impl PosOracle for C18 {
    fn id(&self) -> &'static str {
        "C18"
    }
    fn max_nulls(&self) -> u8 {
        2
    }
    fn state(&self, run: &Run, s: &St) -> Judged {
        let p = &s.key;
        let b = s.lib;
        let r = guard::lib(|| b.null_move()).map_err(|e| Finding::new("panic", "null_move panicked", e))?;
        let chk = p.in_check();
        match (r, chk) {
            (None, true) => {
                run.add("null_refused_in_check", 1);
                run.nontrivial.fetch_add(1, Ordering::Relaxed);
            }
            (None, false) => return Err(Finding::new("null-refused", "null move refused out of check", "null_move() = None although the side to move is not in check".to_string())),
            (Some(_), true) => return Err(Finding::new("null-in-check", "null move allowed in check", "null_move() = Some although the side to move is in check".to_string())),
            (Some(n), false) => {
                let want = p.pass();
                let o = observe(&n);
                if o.bd != want.bd || o.castle != want.castle {
                    return Err(Finding::new("null-changes-position", "", format!("null move changed placement or rights: {} vs {}", o.describe(), want.fen())));
                }
                if o.stm != want.stm {
                    return Err(Finding::new("null-side", "", "null move did not pass the turn".to_string()));
                }
                if o.ep.is_some() {
                    return Err(Finding::new("null-keeps-ep", "", format!("en_passant() = {:?} after a null move", o.ep)));
                }
                let fs = guard::lib(|| from_scratch(&want)).map_err(|e| Finding::new("panic", "from-scratch panicked", e))?.map_err(|e| Finding::new("from-scratch", "", format!("builder rejects the passed position {}: {e}", want.fen())))?;
                if fs != n {
                    let what = if fs.checkers() != n.checkers() { "checkers" } else if fs.pinned() != n.pinned() { "pinned" } else if fs.get_hash() != n.get_hash() { "hash" } else { "other field" };
                    return Err(Finding::new("null-derived-state", what, format!("null-move result differs from the same position built from scratch in {what}: {:?} vs {:?}", n, fs)));
                }
                run.add("null_applied", 1);
                run.add("null_applied_with_ep_state", b.en_passant().is_some() as u64);
                run.add("null_after_null", (s.nulls > 0) as u64);
                run.add("null_result_has_pins", (n.pinned().0 != 0) as u64);
                run.add("null_result_compared_from_scratch", 1);
                if b.en_passant().is_some() || n.pinned().0 != 0 || s.nulls > 0 {
                    run.nontrivial.fetch_add(1, Ordering::Relaxed);
                }
                let k = run.states.load(Ordering::Relaxed);
                run.sample_nth(k, 300_007, || json!({"kind": "judged state", "fen": p.fen(), "null_move_result": want.fen()}));
            }
        }
        Ok(())
    }
}

pub const RULE: &str = "states = every position of the bounded trees (null move is also an action, up to 2 per path, so null moves interleave with real moves), families and children; each judged: null_move() is None iff the reference says in check; otherwise same placement and rights, other side to move, en_passant() None, and == the passed position built from scratch (covers checkers, pinned, hash). distinct_nontrivial = judged states in check, with en-passant state, after an earlier null move, or whose passed position has pins";

pub fn run(tier: Tier) -> i32 {
    let mut plan = with_line_geometry(with_ep_slider_family(standard_plan(tier, 1), tier), true, tier.pick(0, 1));
    plan.call_order_big = true;
    let (run, _) = run_e1("C18", tier, COUNTERS, C18, plan, RULE, &[]);
    finish(&run, RULE)
}
pub fn replay(case: &Value) -> i32 {
    replay_e1("C18", COUNTERS, C18, case)
}
