//! C02 — applying a legal move yields exactly the successor position the rules prescribe.

use super::common::*;
use crate::bridge::*;
use crate::engine::plan::*;
use crate::engine::posgraph::*;
use crate::guard;
use crate::refmodel::*;
use crate::run::{Run, Tier};
use chess::Board;
use serde_json::{json, Value};
use std::str::FromStr;
use std::sync::atomic::Ordering;
use std::sync::OnceLock;

pub const COUNTERS: &[&str] = &[
    "castles_applied", "ep_captures_applied", "promotions_applied", "captures_applied", "double_pushes",
    "ep_recorded", "ep_not_recorded_no_neighbour", "ep_recorded_capture_illegal", "rights_lost_transitions",
    "rook_captured_at_home", "make_move_variants_compared", "make_move_state_sibling_prefills",
];

pub struct C02;

fn unrelated() -> Board {
    static B: OnceLock<Board> = OnceLock::new();
    *B.get_or_init(|| Board::from_str("r3k2r/p1ppqpb1/bn2pnp1/3PN3/1p2P3/2N2Q1p/PPPBBPPP/R3K2R w KQkq - 0 1").expect("machinery: kiwipete"))
}

impl PosOracle for C02 {
    fn id(&self) -> &'static str {
        "C02"
    }
    fn state(&self, _run: &Run, _s: &St) -> Judged {
        Ok(())
    }
    fn transition(&self, run: &Run, pre: &St, a: &Act, post: &St) -> Judged {
        let m = match a {
            Act::Mv(m) => *m,
            Act::Null => return Ok(()),
        };
        let p = &pre.key;
        let want = &post.key; // reference successor
        let o = observe(&post.lib);
        let kind = if p.is_castle(m) { "castle" } else if p.is_ep(m) { "en passant" } else if m.promo.is_some() { "promotion" } else if p.is_capture(m) { "capture" } else if p.is_double_push(m) { "double push" } else { "quiet" };
        if o.bd != want.bd {
            let diff: Vec<String> = (0..64u8).filter(|&s| o.bd[s as usize] != want.bd[s as usize]).map(sq_name).collect();
            return Err(Finding::new("placement", format!("after {kind}"), format!("successor placement differs on {:?}: library {} / reference {}", diff, o.describe(), want.fen())));
        }
        if o.stm != want.stm {
            return Err(Finding::new("side-to-move", format!("after {kind}"), format!("side to move {:?}, expected {:?}", o.stm, want.stm)));
        }
        if o.castle != want.castle {
            return Err(Finding::new("castle-rights", format!("after {kind}"), format!("castling rights {} expected {}", RefPos { castle: o.castle, ..*want }.castle_field(), want.castle_field())));
        }
        // en passant: recorded only right after a double push beside an enemy pawn; always when capturable
        let ep_legal = want.ep_legal();
        match o.ep {
            Some(s) => {
                if want.dp < 0 || want.dp_pawn_sq() != Some(s) {
                    return Err(Finding::new("ep-unjustified", format!("after {kind}"), format!("en_passant()={} but the last move was not a double push to that square", sq_name(s))));
                }
                if !want.ep_adjacent() {
                    return Err(Finding::new("ep-unjustified", "double push without a neighbouring enemy pawn", format!("en_passant()={} but no enemy pawn stands beside it", sq_name(s))));
                }
                run.add("ep_recorded", 1);
                if !ep_legal {
                    run.add("ep_recorded_capture_illegal", 1);
                    run.tolerant("T1: ep recorded although no legal capture exists", 1);
                }
            }
            None => {
                if ep_legal {
                    return Err(Finding::new("ep-missing", "legal en-passant capture exists", format!("en_passant()=None but {} can be captured en passant", sq_name(want.dp_pawn_sq().unwrap()))));
                }
                if want.dp >= 0 {
                    run.add("ep_not_recorded_no_neighbour", 1);
                }
            }
        }
        // both entry points, whatever the output board held before
        let lm = lmove(m);
        let src = pre.lib;
        let saved = pre.lib;
        let expect = post.lib;
        let outs = [Board::default(), src, unrelated(), expect];
        for (i, init) in outs.iter().enumerate() {
            let mut out = *init;
            guard::lib(|| src.make_move(lm, &mut out)).map_err(|e| Finding::new("panic", "make_move panicked", e))?;
            if out != expect {
                return Err(Finding::new("make-move-differs", format!("after {kind}"), format!("make_move into pre-state #{i} gives {} but make_move_new gives {} (derived == over all fields)", out, expect)));
            }
        }
        run.add("make_move_variants_compared", 4);
        // output boards that hold the SAME placement as the source but another state (castling rights, en-passant
        // state, side to move): a shortcut "the output already holds this position" keyed by placement alone
        // would leave stale state behind
        let sibs = prefill_siblings_of(pre);
        for init in sibs.iter() {
            let mut out = *init;
            guard::lib(|| src.make_move(lm, &mut out)).map_err(|e| Finding::new("panic", "make_move panicked", e))?;
            if out != expect {
                return Err(Finding::new("make-move-differs", format!("after {kind}; output board held the source placement with another state"), format!("make_move into a board holding {} gives {} but make_move_new gives {} (derived == over all fields)", init, out, expect)));
            }
        }
        run.add("make_move_state_sibling_prefills", sibs.len() as u64);
        if src != saved {
            return Err(Finding::new("source-modified", "", "source board changed by move application".to_string()));
        }
        run.add("castles_applied", (kind == "castle") as u64);
        run.add("ep_captures_applied", (kind == "en passant") as u64);
        run.add("promotions_applied", m.promo.is_some() as u64);
        run.add("captures_applied", p.is_capture(m) as u64);
        run.add("double_pushes", p.is_double_push(m) as u64);
        run.add("rights_lost_transitions", (p.castle != want.castle) as u64);
        let opp_bits = if p.stm == Col::W { BK | BQ } else { WK | WQ };
        run.add("rook_captured_at_home", ((p.castle & opp_bits) != (want.castle & opp_bits)) as u64);
        if kind != "quiet" || p.castle != want.castle {
            run.nontrivial.fetch_add(1, Ordering::Relaxed);
        }
        let n = run.transitions.load(Ordering::Relaxed);
        run.sample_nth(n, 300_007, || json!({"kind": "judged transition", "from": p.fen(), "move": m.uci(), "to": want.fen(), "library_en_passant": o.ep.map(sq_name)}));
        Ok(())
    }
}

pub const RULE: &str = "transitions = every legal move (reference menu) applied with the library's make_move_new at every state of the bounded trees and families; each judged: all 64 squares, side to move, both castling rights against the reference successor; en-passant sandwich (recorded only after a double push beside an enemy pawn, always when a legal capture exists); make_move into 4 different output pre-states == make_move_new; source unchanged. distinct_nontrivial = judged transitions that are a capture, castle, en passant, promotion, double push or change castling rights";

pub fn run(tier: Tier) -> i32 {
    let (run, _) = run_e1("C02", tier, COUNTERS, C02, with_line_geometry(with_ep_slider_family(standard_plan(tier, 1), tier), false, 1), RULE, &[]);
    finish(&run, RULE)
}
pub fn replay(case: &Value) -> i32 {
    replay_e1("C02", COUNTERS, C02, case)
}
