//! C13 — coordinate (UCI) move and square text round-trips and parsing is total.

use crate::bridge::*;
use crate::guard;
use crate::refmodel::*;
use crate::run::{Run, Tier, Violation};
use chess::{ChessMove, Square};
use rayon::prelude::*;
use serde_json::{json, Value};
use std::str::FromStr;
use std::sync::atomic::{AtomicU64, Ordering};
use std::sync::Arc;

pub const COUNTERS: &[&str] = &["moves_round_tripped", "squares_round_tripped", "strings_parsed_as_move", "strings_parsed_as_square", "move_parses_ok", "square_parses_ok", "strings_with_non_ascii", "max_length", "long_move_texts", "long_square_texts", "code_point_texts", "padded_texts", "promotion_tail_texts", "wrapped_texts"];

pub const ALPHABET: &[&str] = &["a", "b", "c", "d", "e", "f", "g", "h", "1", "2", "3", "4", "5", "6", "7", "8", "q", "r", "n", "i", "9", "0", "Q", " ", "é", "€", "😀", "x", "-", "B", "\n", "\r", "ű", "ı"];
/// Suffix alphabet of the long-text sweep: the trie alphabet plus "truncation aliases" — 2-, 3- and
/// 4-byte characters whose LOW BYTE (and, for some, low 7 bits) equals an ASCII character that
/// means something to the parsers (q r n b, a, h, 1, 8): U+0171, U+0172, U+016E, U+0162, U+0161,
/// U+0168, U+0131, U+0138, U+2071, U+2034, U+1F171, U+1F162.
pub const SUFFIX_EXTRA: &[&str] = &["\u{172}", "\u{16e}", "\u{162}", "\u{161}", "\u{168}", "\u{138}", "\u{2071}", "\u{2034}", "\u{1f171}", "\u{1f162}", "\t", "=", "+", "#"];

fn crumb(b: &[u8]) -> String {
    format!("parsing text {:?}", String::from_utf8_lossy(b))
}

fn judge(run: &Run, s: &str, ok_m: &AtomicU64, ok_s: &AtomicU64) {
    guard::crumb_raw(crumb, s.as_bytes());
    match guard::lib(|| ChessMove::from_str(s)) {
        Err(e) => {
            run.report(Violation::new("C13", "move-parse-panic", "", format!("ChessMove::from_str({s:?}) panicked: {e}"), json!({"kind": "text", "text": s})));
        }
        Ok(Ok(m)) => {
            ok_m.fetch_add(1, Ordering::Relaxed);
            let r = m.to_string();
            if !s.starts_with(&r) {
                run.report(Violation::new("C13", "move-prefix", if s.len() == r.len() + 1 { "one trailing character" } else { "other" }, format!("ChessMove::from_str({s:?}) = {r}, which is not a prefix of the input"), json!({"kind": "text", "text": s})));
            }
        }
        Ok(Err(_)) => {}
    }
    match guard::lib(|| Square::from_str(s)) {
        Err(e) => {
            run.report(Violation::new("C13", "square-parse-panic", "", format!("Square::from_str({s:?}) panicked: {e}"), json!({"kind": "text", "text": s})));
        }
        Ok(Ok(q)) => {
            ok_s.fetch_add(1, Ordering::Relaxed);
            if !s.starts_with(&q.to_string()) {
                run.report(Violation::new("C13", "square-prefix", "", format!("Square::from_str({s:?}) = {q}, which is not a prefix of the input"), json!({"kind": "text", "text": s})));
            }
        }
        Ok(Err(_)) => {}
    }
}

fn walk(run: &Run, prefix: &mut String, depth: usize, n: &mut u64, na: &mut u64, ok_m: &AtomicU64, ok_s: &AtomicU64) {
    judge(run, prefix, ok_m, ok_s);
    *n += 1;
    if !prefix.is_ascii() {
        *na += 1;
    }
    if depth == 0 || run.has_violation() {
        return;
    }
    for sym in ALPHABET {
        let l = prefix.len();
        prefix.push_str(sym);
        walk(run, prefix, depth - 1, n, na, ok_m, ok_s);
        prefix.truncate(l);
    }
}

fn round_trips(run: &Run) {
    for from in 0..64u8 {
        for to in 0..64u8 {
            for promo in [None, Some(Kind::N), Some(Kind::B), Some(Kind::R), Some(Kind::Q)] {
                let m = RMove::new(from, to, promo);
                let lm = lmove(m);
                let txt = lm.to_string();
                if txt != m.uci() {
                    run.report(Violation::new("C13", "move-render", "", format!("move {} renders as {txt:?}", m.uci()), json!({"kind": "move", "move": m.uci()})));
                }
                match guard::lib(|| ChessMove::from_str(&txt)) {
                    Ok(Ok(b)) if b == lm => {}
                    other => {
                        run.report(Violation::new("C13", "move-round-trip", if promo.is_some() { "promotion" } else { "plain" }, format!("{txt:?} parses back to {:?}", other.map(|r| r.map(|m| m.to_string()).map_err(|e| e.to_string()))), json!({"kind": "move", "move": m.uci()})));
                    }
                }
                run.add("moves_round_tripped", 1);
            }
        }
        let q = lsq(from);
        let txt = q.to_string();
        if txt != sq_name(from) || Square::from_str(&txt).ok() != Some(q) {
            run.report(Violation::new("C13", "square-round-trip", "", format!("square {} renders as {txt:?} / does not parse back", sq_name(from)), json!({"kind": "text", "text": txt})));
        }
        run.add("squares_round_tripped", 1);
    }
}

pub const RULE: &str = "all 20480 move values and all 64 squares: rendering = source, destination, optional lower-case promotion letter, and parses back to the identical value; every string of length <= L (L = 5 quick, 6 thorough) over a 34-symbol alphabet {a-h, 1-8, q r n i 9 0 Q B x - space, LF, CR, the 2/3/4-byte characters e-acute, euro sign, an emoji, and two 2-byte characters whose low byte is 'q' and '1'} walked as a trie (every prefix is a case), plus every well-formed 4-character move text followed by every suffix of up to 2 (thorough 3) symbols over that alphabet extended by 14 more symbols (2/3/4-byte characters whose low byte equals r, n, b, a, h, 8, q, 4; tab, =, +, #) and every square text followed by every suffix of up to 3 (4) symbols: every one of the 1 112 064 Unicode scalar values substituted for and inserted before every character of five well-formed texts; every promotion-rank move text followed by every tail of up to 3 symbols over a 58-symbol alphabet; five texts wrapped in every pair of ASCII characters (one before, one after); five texts padded with each of 4 fill characters to EVERY length 0..=1100 and 2^k +- 12 (k = 11..20) bytes and closed by each of 8 final characters: no panic in ChessMove::from_str / Square::from_str, and Ok(v) implies v.to_string() is a prefix of the input. distinct_nontrivial = strings on which at least one of the two parsers succeeded";

pub fn run(tier: Tier) -> i32 {
    let run = Arc::new(Run::new("C13", tier, COUNTERS));
    round_trips(&run);
    let len = tier.pick(5usize, 6usize);
    let ok_m = AtomicU64::new(0);
    let ok_s = AtomicU64::new(0);
    // parallel over the first two symbols
    let firsts: Vec<String> = ALPHABET.iter().flat_map(|a| ALPHABET.iter().map(move |b| format!("{a}{b}"))).collect();
    let mut n0 = 0u64;
    let mut na0 = 0u64;
    let mut e = String::new();
    walk(&run, &mut e, 1, &mut n0, &mut na0, &ok_m, &ok_s);
    let (n, na): (u64, u64) = firsts
        .par_iter()
        .map(|p| {
            let mut s = p.clone();
            let (mut n, mut na) = (0u64, 0u64);
            walk(&run, &mut s, len - 2, &mut n, &mut na, &ok_m, &ok_s);
            (n, na)
        })
        .reduce(|| (0, 0), |a, b| (a.0 + b.0, a.1 + b.1));
    // long texts: every well-formed 4-character move text (4096) followed by every suffix of up to
    // S symbols, and every square text followed by every suffix of up to S + 1 symbols
    let slen = tier.pick(2usize, 3usize);
    let mut suffixes: Vec<String> = vec![String::new()];
    let mut frontier = vec![String::new()];
    for _ in 0..(slen + 1) {
        let mut next = vec![];
        for f in frontier.iter() {
            for a in ALPHABET.iter().chain(SUFFIX_EXTRA.iter()) {
                next.push(format!("{f}{a}"));
            }
        }
        suffixes.extend(next.iter().cloned());
        frontier = next;
        if suffixes.len() > 40_000_000 {
            break;
        }
    }
    let move_suffix_count = (0..=slen).map(|k| (ALPHABET.len() + SUFFIX_EXTRA.len()).pow(k as u32)).sum::<usize>();
    let long_moves: u64 = (0..4096u32)
        .into_par_iter()
        .map(|i| {
            let m = RMove::new((i / 64) as u8, (i % 64) as u8, None).uci();
            let mut k = 0u64;
            for suf in suffixes.iter().take(move_suffix_count) {
                if run.has_violation() {
                    break;
                }
                judge(&run, &format!("{m}{suf}"), &ok_m, &ok_s);
                k += 1;
            }
            k
        })
        .sum();
    let long_squares: u64 = (0..64u8)
        .into_par_iter()
        .map(|q| {
            let mut k = 0u64;
            for suf in suffixes.iter() {
                if run.has_violation() {
                    break;
                }
                judge(&run, &format!("{}{suf}", sq_name(q)), &ok_m, &ok_s);
                k += 1;
            }
            k
        })
        .sum();
    // every Unicode scalar value (1 112 064 of them) substituted for, and inserted before, every
    // character of a few well-formed texts: byte-level table lookups, masks and casts cannot alias
    // a multi-byte character into a meaningful letter or digit unnoticed
    let cp_bases: &[&str] = &["e2e4", "e7e8q", "a1h8", "h7g8n", "e4"];
    let cp_count: u64 = (0..=0x10FFu32)
        .into_par_iter()
        .map(|hi| {
            let mut k = 0u64;
            let mut buf = String::with_capacity(16);
            for lo in 0..=0xFFu32 {
                let c = match char::from_u32(hi * 256 + lo) {
                    Some(c) => c,
                    None => continue,
                };
                if run.has_violation() {
                    break;
                }
                for base in cp_bases {
                    let chars: Vec<char> = base.chars().collect();
                    for i in 0..=chars.len() {
                        // insertion before position i
                        buf.clear();
                        buf.extend(chars[..i].iter());
                        buf.push(c);
                        buf.extend(chars[i..].iter());
                        judge(&run, &buf, &ok_m, &ok_s);
                        k += 1;
                        if i < chars.len() {
                            buf.clear();
                            buf.extend(chars[..i].iter());
                            buf.push(c);
                            buf.extend(chars[i + 1..].iter());
                            judge(&run, &buf, &ok_m, &ok_s);
                            k += 1;
                        }
                    }
                }
            }
            k
        })
        .sum();
    run.add("code_point_texts", cp_count);
    // promotion texts with longer tails: every move from the 7th / 2nd rank to the last rank x every tail of up
    // to 3 symbols (a line break or a quote FOLLOWED by more text changes nothing about the prefix rule)
    let tails3: Vec<String> = {
        let alpha: Vec<&str> = ALPHABET.iter().chain(SUFFIX_EXTRA.iter()).copied().chain(["\"", "'", "(", ")", "[", "]", "!", "?", ";", ","]).collect();
        let mut out = vec![];
        for a in alpha.iter() {
            for b in alpha.iter() {
                for c in alpha.iter() {
                    out.push(format!("{a}{b}{c}"));
                }
            }
        }
        out
    };
    let promo_moves: Vec<String> = (0..8i8).flat_map(|f| [-1i8, 0, 1].into_iter().filter(move |d| (0..8).contains(&(f + d))).flat_map(move |d| [(6i8, 7i8), (1, 0)].into_iter().map(move |(r1, r2)| RMove::new(sq(f, r1), sq(f + d, r2), None).uci()))).collect();
    let tail_count: u64 = promo_moves
        .par_iter()
        .map(|m| {
            let mut k = 0u64;
            for t in tails3.iter() {
                if run.has_violation() {
                    break;
                }
                judge(&run, &format!("{m}{t}"), &ok_m, &ok_s);
                k += 1;
            }
            k
        })
        .sum();
    run.add("promotion_tail_texts", tail_count);
    // wrapped texts: one character before AND one after a well-formed text (quotes, brackets, any ASCII pair)
    let wrap_count: u64 = (0..128u32)
        .into_par_iter()
        .map(|c1| {
            let mut k = 0u64;
            for c2 in 0..128u32 {
                for base in ["e2e4", "e7e8q", "a1h8", "e4", "h7g8n"] {
                    if run.has_violation() {
                        return k;
                    }
                    let t = format!("{}{}{}", char::from_u32(c1).unwrap(), base, char::from_u32(c2).unwrap());
                    judge(&run, &t, &ok_m, &ok_s);
                    k += 1;
                }
            }
            k
        })
        .sum();
    run.add("wrapped_texts", wrap_count);
    let cp_count = cp_count + tail_count + wrap_count;
    // padded texts of EVERY length up to 1100 bytes and around 2^k (k <= 20): a length kept in a narrow
    // integer, or compared modulo 2^8 / 2^16, must not change the verdict
    let mut pads: Vec<usize> = (0..=1100usize).collect();
    for k in 11..=20u32 {
        for d in 0..=12usize {
            pads.push((1usize << k) + d);
            pads.push((1usize << k) - d);
        }
    }
    let pad_count: u64 = pads
        .par_iter()
        .map(|l| {
            let mut k = 0u64;
            for base in ["e2e4", "e7e8", "a7a8q", "e4", ""] {
                for fill in ['x', 'q', '1', ' '] {
                    for last in ["", "q", "n", "r", "b", "k", "1", "h"] {
                        if run.has_violation() {
                            return k;
                        }
                        let mut t = String::with_capacity(base.len() + l + 1);
                        t.push_str(base);
                        t.extend(std::iter::repeat(fill).take(*l));
                        t.push_str(last);
                        judge(&run, &t, &ok_m, &ok_s);
                        k += 1;
                    }
                }
            }
            k
        })
        .sum();
    run.add("padded_texts", pad_count);
    let long_moves = long_moves + cp_count + pad_count;
    run.add("long_move_texts", long_moves);
    run.add("long_square_texts", long_squares);
    let n = n + long_moves + long_squares;
    run.add("strings_parsed_as_move", n + n0);
    run.add("strings_parsed_as_square", n + n0);
    run.add("strings_with_non_ascii", na + na0);
    run.add("move_parses_ok", ok_m.load(Ordering::Relaxed));
    run.add("square_parses_ok", ok_s.load(Ordering::Relaxed));
    run.add("max_length", len as u64);
    run.evaluations.store(2 * (n + n0) + 20480 + 64, Ordering::Relaxed);
    run.nontrivial.store(ok_m.load(Ordering::Relaxed).max(ok_s.load(Ordering::Relaxed)), Ordering::Relaxed);
    run.sample(json!({"kind": "text", "text": "e7e8q", "expect": "Ok(e7e8q)"}));
    run.sample(json!({"kind": "text", "text": "a1é2", "expect": "no panic; Err or a prefix"}));
    run.sample(json!({"kind": "move", "move": "h7h8n", "expect": "renders h7h8n and parses back"}));
    run.finish("exploration", RULE, true, json!({"alphabet": ALPHABET, "max_symbols": len}))
}
pub fn replay(case: &Value) -> i32 {
    let run = Arc::new(Run::new("C13", Tier::Quick, COUNTERS));
    match case["kind"].as_str() {
        Some("text") => judge(&run, case["text"].as_str().unwrap_or(""), &AtomicU64::new(0), &AtomicU64::new(0)),
        _ => round_trips(&run),
    }
    crate::replay_verdict(&run)
}
