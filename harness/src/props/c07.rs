//! C07 — validation never panics, accepts only playable positions, and those are safe.
//! E3: complete enumeration of bounded text and builder-state spaces (+ the standard position
//! universes for "every valid position is accepted").

use super::common::*;
use crate::bridge::*;
use crate::engine::plan::*;
use crate::engine::posgraph::*;
use crate::guard;
use crate::refmodel::*;
use crate::run::{Run, Tier, Violation};
use crate::universe::*;
use chess::{Board, BoardBuilder, CastleRights, Color, MoveGen};
use rayon::prelude::*;
use serde_json::{json, Value};
use std::collections::BTreeSet;
use std::convert::TryFrom;
use std::str::FromStr;
use std::sync::atomic::{AtomicU64, Ordering};
use std::sync::Arc;

pub const COUNTERS: &[&str] = &[
    "texts_tried", "texts_accepted", "texts_field_product", "texts_edit_ball", "texts_short", "texts_non_ascii",
    "builder_states_tried", "builder_states_accepted", "builder_states_reference_valid", "builder_states_accepted_but_not_valid_tolerated",
    "texts_digit_runs", "crowded_boards_tried", "crowded_boards_accepted", "crowded_max_men_of_a_colour_accepted", "accepted_boards_exercised", "moves_applied_on_accepted_boards", "universe_positions_accepted",
];

fn case_text(s: &str) -> Value {
    json!({"kind": "fen-text", "text": s})
}
fn builder_case(bb: &BoardBuilder) -> Value {
    // the builder's own rendering is not trusted for replay: write the cells out
    let mut cells = vec![];
    for s in 0..64u8 {
        if let Some((p, c)) = bb[lsq(s)] {
            cells.push(json!([sq_name(s), piece_char(rkind(p), rcol(c)).to_string()]));
        }
    }
    json!({"kind": "builder", "cells": cells, "stm": if bb.get_side_to_move() == Color::White {"w"} else {"b"},
        "rights": rrights_bits(bb.get_castle_rights(Color::White), bb.get_castle_rights(Color::Black)),
        "ep_file": bb.get_en_passant().map(|s| file_of(rsq(s)) as i64).unwrap_or(-1)})
}
fn builder_from_case(c: &Value) -> Option<BoardBuilder> {
    let mut bb = BoardBuilder::new();
    for cell in c["cells"].as_array()? {
        let sqn = cell[0].as_str()?;
        let s = RMove::parse_uci(&format!("{sqn}a1"))?.from;
        let ch = cell[1].as_str()?.chars().next()?;
        let col = if ch.is_ascii_uppercase() { Col::W } else { Col::B };
        let k = match ch.to_ascii_lowercase() {
            'p' => Kind::P,
            'n' => Kind::N,
            'b' => Kind::B,
            'r' => Kind::R,
            'q' => Kind::Q,
            _ => Kind::K,
        };
        bb.piece(lsq(s), lkind(k), lcol(col));
    }
    bb.side_to_move(if c["stm"] == json!("w") { Color::White } else { Color::Black });
    let r = c["rights"].as_u64()? as u8;
    bb.castle_rights(Color::White, lrights(r & WK != 0, r & WQ != 0));
    bb.castle_rights(Color::Black, lrights(r & BK != 0, r & BQ != 0));
    let f = c["ep_file"].as_i64()?;
    bb.en_passant(if f < 0 { None } else { Some(lfile(f as i8)) });
    Some(bb)
}

/// Clause (2): what an accepted board must satisfy, on its observable position.
fn necessary(b: &Board) -> Result<(), (&'static str, String)> {
    let o = observe(b);
    let p = obs_to_pos(&o).ok_or(("accepted-inconsistent", format!("piece_on / color_on disagree: {}", o.describe())))?;
    for c in [Col::W, Col::B] {
        if p.kings(c).len() != 1 {
            return Err(("accepted-kings", format!("{} kings of {:?} in accepted position {}", p.kings(c).len(), c, o.describe())));
        }
    }
    if p.king_attacked(p.stm.flip()) {
        return Err(("accepted-opponent-in-check", format!("side not to move is in check in accepted position {}", o.describe())));
    }
    for (bit, c, rf) in [(WK, Col::W, 7), (WQ, Col::W, 0), (BK, Col::B, 7), (BQ, Col::B, 0)] {
        if p.castle & bit != 0 && (p.at(sq(4, c.home_rank())) != Some((Kind::K, c)) || p.at(sq(rf, c.home_rank())) != Some((Kind::R, c))) {
            return Err(("accepted-unbacked-right", format!("castling right without king and rook at home in accepted position {}", o.describe())));
        }
    }
    if let Some(s) = o.ep {
        let pusher = p.stm.flip();
        if p.at(s) != Some((Kind::P, pusher)) || rank_of(s) != pusher.dp_rank() {
            return Err(("accepted-bad-ep", format!("en_passant() = {} does not name an enemy pawn on its double-push rank in {}", sq_name(s), o.describe())));
        }
    }
    Ok(())
}

/// Clause (4): hand the accepted board to everything the statement lists.
fn exercise(b: &Board) -> u64 {
    let mut n = 0u64;
    let ms: Vec<chess::ChessMove> = MoveGen::new_legal(b).collect();
    let _ = MoveGen::new_legal(b).len();
    let _ = b.status();
    let _ = b.to_string();
    let _ = b.null_move();
    let _ = b.get_hash();
    // on crowded boards the reply's move generation runs as well: the move list of the side NOT to
    // move is filled only one ply later
    let crowded = b.color_combined(chess::Color::White).popcnt() > 14 || b.color_combined(chess::Color::Black).popcnt() > 14;
    for m in ms {
        let nb = b.make_move_new(m);
        let mut out = Board::default();
        b.make_move(m, &mut out);
        let _ = nb.to_string();
        if crowded {
            let _ = MoveGen::new_legal(&nb).count();
            let _ = nb.status();
        }
        n += 1;
    }
    n
}

fn judge_accepted(run: &Run, b: &Board, case: &dyn Fn() -> Value, origin: &str) -> bool {
    if let Err((clause, detail)) = necessary(b) {
        return !run.report(Violation::new("C07", clause, origin, detail, case()));
    }
    let bc = *b;
    match guard::lib(move || exercise(&bc)) {
        Ok(n) => {
            run.add("accepted_boards_exercised", 1);
            run.add("moves_applied_on_accepted_boards", n);
            true
        }
        Err(e) => {
            let o = observe(b);
            let men = o.bd.iter().filter(|c| **c != 0 && (((**c - 1) / 6 == 0) == (o.stm == Col::W))).count();
            let shape = if e.contains("CAPACITY") || e.contains("capacity") { if men > 16 { "move list overflow: accepted board with more than 16 men of the side to move" } else { "move list overflow" } } else { "panic while using an accepted board" };
            !run.report(Violation::new("C07", "accepted-unsafe", shape, format!("accepted position {} ({} men of the side to move): {}", o.describe(), men, e), case()))
        }
    }
}

fn crumb(b: &[u8]) -> String {
    format!("validating text {:?}", String::from_utf8_lossy(b))
}

fn judge_text(run: &Run, s: &str) -> bool {
    guard::crumb_raw(crumb, s.as_bytes());
    let r = guard::lib(|| (Board::from_str(s).ok(), BoardBuilder::from_str(s).is_ok()));
    match r {
        Err(e) => !run.report(Violation::new("C07", "parse-panic", "", format!("parsing {s:?} panicked: {e}"), case_text(s))),
        Ok((board, _builder_ok)) => {
            let strict = RefPos::from_fen(s).ok().filter(|p| p.is_valid());
            match board {
                Some(b) => {
                    run.add("texts_accepted", 1);
                    judge_accepted(run, &b, &|| case_text(s), "text")
                }
                None => {
                    if let Some(p) = strict {
                        return !run.report(Violation::new("C07", "valid-rejected", "standard FEN of a valid position rejected", format!("{s:?} is the FEN of the valid position {} but is rejected", p.fen()), case_text(s)));
                    }
                    true
                }
            }
        }
    }
}

// ------------------------------------------------------------------------------------------ texts

fn placements() -> Vec<String> {
    let mut v: BTreeSet<String> = BTreeSet::new();
    let rs = roots();
    for r in rs.iter().step_by(5) {
        v.insert(r.pos.placement_field());
    }
    let bases: Vec<String> = rs.iter().step_by(31).map(|r| r.pos.placement_field()).collect();
    let bad = ["9", "44p", "8p", "", "ppppppppp", "7", "p7p", "KK6", "é7", "€", "😀6", "1p1p1p1p1", "88", "0", "p/p", "kK6", "8k", "x7", "PPPPPPPPP", "4k4"];
    for b in bases.iter() {
        let ranks: Vec<&str> = b.split('/').collect();
        for &i in &[0usize, 3, 7] {
            for x in bad {
                let mut r2: Vec<&str> = ranks.clone();
                r2[i] = x;
                v.insert(r2.join("/"));
            }
        }
        v.insert(ranks[..7].join("/"));
        v.insert(format!("{b}/8"));
        v.insert(format!("{b}/"));
    }
    v.into_iter().collect()
}

/// Long digit runs inside one rank: digit d repeated k times (k <= 300, so that a counter of any width up to
/// 11 bits is passed), then nothing or a man, in the first and in the last rank written.
fn digit_runs(run: &Run) {
    use rayon::prelude::*;
    let jobs: Vec<(char, usize)> = "0123456789".chars().flat_map(|d| (1..=300usize).map(move |k| (d, k))).collect();
    let n = AtomicU64::new(0);
    jobs.par_iter().for_each(|(d, k)| {
        if run.has_violation() {
            return;
        }
        let run_txt: String = std::iter::repeat(*d).take(*k).collect();
        for tok in ["", "K", "k", "P", "7"] {
            for text in [format!("{run_txt}{tok}/8/8/8/8/8/8/K6k w - - 0 1"), format!("k6K/8/8/8/8/8/8/{run_txt}{tok} w - - 0 1"), format!("k6K/8/8/{run_txt}{tok}/8/8/8/8 b - - 0 1")] {
                n.fetch_add(1, Ordering::Relaxed);
                if !judge_text(run, &text) {
                    return;
                }
            }
        }
    });
    run.add("texts_digit_runs", n.load(Ordering::Relaxed));
    run.add("texts_tried", n.load(Ordering::Relaxed));
}

fn field_product(run: &Run) {
    let ps = placements();
    let sides = ["w", "b", "W", "B", "x", "", "é"];
    let castles = ["-", "K", "Q", "k", "q", "KQkq", "Kk", "Qq", "KK", "XYZ", "", "qkQK", "kK", "QK"];
    let mut eps: Vec<String> = vec!["-".into(), "e4".into(), "e5".into(), "z9".into(), "e".into(), "".into(), "é".into(), "E3".into(), "E6".into(), "a9".into(), "i3".into()];
    for f in b'a'..=b'h' {
        eps.push(format!("{}3", f as char));
        eps.push(format!("{}6", f as char));
    }
    let tails = ["", " 0 1", " x y", "  0 1"];
    let n = AtomicU64::new(0);
    ps.par_iter().for_each(|p| {
        let mut k = 0u64;
        for s in sides {
            for c in castles {
                for e in eps.iter() {
                    for t in tails {
                        if run.has_violation() {
                            return;
                        }
                        let text = format!("{p} {s} {c} {e}{t}");
                        judge_text(run, &text);
                        k += 1;
                    }
                }
            }
        }
        n.fetch_add(k, Ordering::Relaxed);
    });
    run.add("texts_field_product", n.load(Ordering::Relaxed));
    run.add("texts_tried", n.load(Ordering::Relaxed));
    run.note("field_product", json!({"placements": ps.len(), "sides": sides.len(), "castling": castles.len(), "ep": eps.len(), "tails": tails.len()}));
}

const TEXT_ALPHABET: &[&str] = &["a", "d", "e", "h", "1", "2", "3", "4", "5", "6", "7", "8", "9", "0", "/", " ", "-", "w", "b", "K", "Q", "k", "q", "p", "P", "r", "R", "n", "N", "B", "x", "é", "€", "😀", "W", "\t", "+", ".", "o", "Z", "\n", "\u{170}", "\u{14b}", "\u{138}", "\u{12f}", "\u{177}", "\u{12d}", "\u{120}"];

fn edits(s: &str, f: &mut dyn FnMut(&str) -> bool) -> bool {
    let chars: Vec<char> = s.chars().collect();
    let head = |i: usize| chars[..i].iter().collect::<String>();
    let tail = |i: usize| chars[i..].iter().collect::<String>();
    for i in 0..=chars.len() {
        for a in TEXT_ALPHABET {
            if !f(&format!("{}{}{}", head(i), a, tail(i))) {
                return false;
            }
        }
        if i < chars.len() {
            if !f(&format!("{}{}", head(i), tail(i + 1))) {
                return false;
            }
            for a in TEXT_ALPHABET {
                if !f(&format!("{}{}{}", head(i), a, tail(i + 1))) {
                    return false;
                }
            }
        }
    }
    true
}

fn edit_balls(run: &Run, tier: Tier) {
    let seeds: Vec<String> = roots().iter().step_by(4).map(|r| r.pos.fen()).collect();
    let n = AtomicU64::new(0);
    seeds.par_iter().for_each(|s| {
        let mut k = 0u64;
        edits(s, &mut |t| {
            k += 1;
            judge_text(run, t) && !run.has_violation()
        });
        n.fetch_add(k, Ordering::Relaxed);
    });
    if tier == Tier::Thorough {
        let short = ["8/8/8/8/8/8/8/K1k5 w - -", "4k3/8/8/8/8/8/8/R3K2R w KQ - 0 1", "8/8/8/2k5/2Pp4/8/5B2/4K3 b - c3 0 1"];
        for s in short {
            let mut firsts: Vec<String> = vec![];
            edits(s, &mut |t| {
                firsts.push(t.to_string());
                true
            });
            firsts.par_iter().for_each(|t1| {
                if run.has_violation() || run.over_budget() {
                    return;
                }
                let mut k = 0u64;
                edits(t1, &mut |t2| {
                    k += 1;
                    judge_text(run, t2)
                });
                n.fetch_add(k, Ordering::Relaxed);
            });
        }
    }
    run.add("texts_edit_ball", n.load(Ordering::Relaxed));
    run.add("texts_tried", n.load(Ordering::Relaxed));
    run.note("edit_ball_seeds", json!(seeds.len()));
}

fn short_strings(run: &Run, len: usize) {
    let n = AtomicU64::new(0);
    let na = AtomicU64::new(0);
    TEXT_ALPHABET.par_iter().for_each(|a| {
        let mut stack = vec![a.to_string()];
        let mut k = 0u64;
        let mut kna = 0u64;
        while let Some(s) = stack.pop() {
            if !judge_text(run, &s) {
                return;
            }
            k += 1;
            kna += (!s.is_ascii()) as u64;
            if s.chars().count() < len {
                for b in TEXT_ALPHABET {
                    stack.push(format!("{s}{b}"));
                }
            }
        }
        n.fetch_add(k, Ordering::Relaxed);
        na.fetch_add(kna, Ordering::Relaxed);
    });
    judge_text(run, "");
    run.add("texts_short", n.load(Ordering::Relaxed) + 1);
    run.add("texts_non_ascii", na.load(Ordering::Relaxed));
    run.add("texts_tried", n.load(Ordering::Relaxed) + 1);
}

// ------------------------------------------------------------------------------------------ builder states

fn judge_builder(run: &Run, bb: &BoardBuilder, p: &RefPos, origin: &str) -> bool {
    let r = guard::lib(|| Board::try_from(bb).ok());
    run.add("builder_states_tried", 1);
    match r {
        Err(e) => !run.report(Violation::new("C07", "builder-panic", "", format!("Board::try_from panicked: {e}"), builder_case(bb))),
        Ok(res) => {
            let valid = p.is_valid();
            if valid {
                run.add("builder_states_reference_valid", 1);
            }
            match res {
                Some(b) => {
                    run.add("builder_states_accepted", 1);
                    if !valid {
                        run.add("builder_states_accepted_but_not_valid_tolerated", 1);
                    }
                    judge_accepted(run, &b, &|| builder_case(bb), origin)
                }
                None => {
                    if valid {
                        return !run.report(Violation::new("C07", "valid-rejected", "reference-valid builder state rejected", format!("valid position {} is rejected by Board::try_from", p.fen()), builder_case(bb)));
                    }
                    true
                }
            }
        }
    }
}

fn builder_states(run: &Run, max_men: usize, rights_alpha: &[u8], ep_alpha: &[i8]) {
    // men: squares ascending, each any of the 12 piece codes
    let firsts: Vec<(u8, u8)> = (0..64u8).flat_map(|s| (1..=12u8).map(move |c| (s, c))).collect();
    let each = |cells: &[(u8, u8)]| {
        let mut p = RefPos::empty();
        let mut bb = BoardBuilder::new();
        for &(s, c) in cells {
            p.bd[s as usize] = c;
            let (k, col) = decode(c).unwrap();
            bb.piece(lsq(s), lkind(k), lcol(col));
        }
        for stm in [Col::W, Col::B] {
            p.stm = stm;
            bb.side_to_move(lcol(stm));
            for &r in rights_alpha {
                p.castle = r;
                bb.castle_rights(Color::White, lrights(r & WK != 0, r & WQ != 0));
                bb.castle_rights(Color::Black, lrights(r & BK != 0, r & BQ != 0));
                for &e in ep_alpha {
                    p.dp = e;
                    bb.en_passant(if e < 0 { None } else { Some(lfile(e)) });
                    if !judge_builder(run, &bb, &p, "builder state") {
                        return false;
                    }
                }
            }
        }
        true
    };
    each(&[]);
    firsts.par_iter().for_each(|&(s1, c1)| {
        if run.has_violation() || run.over_budget() {
            return;
        }
        guard::crumb_text(&format!("builder states with first man {} on {}", c1, sq_name(s1)));
        if !each(&[(s1, c1)]) || max_men < 2 {
            return;
        }
        for s2 in (s1 + 1)..64 {
            for c2 in 1..=12u8 {
                if !each(&[(s1, c1), (s2, c2)]) {
                    return;
                }
                if max_men >= 3 {
                    for s3 in (s2 + 1)..64 {
                        for c3 in 1..=12u8 {
                            if !each(&[(s1, c1), (s2, c2), (s3, c3)]) {
                                return;
                            }
                        }
                    }
                }
            }
            if run.over_budget() {
                return;
            }
        }
    });
}

/// Structured builder families aimed at the individual clauses of is_sane-like validation.
fn structured_builder_states(run: &Run) {
    let rights_alpha: [u8; 6] = [0, WK, WQ, BK, BQ, 15];
    let ep_alpha: [i8; 4] = [-1, 0, 4, 7];
    // (a) both kings anywhere (adjacent included) plus one more man of any of the 12 kinds anywhere
    (0..64u8).into_par_iter().for_each(|wk| {
        if run.has_violation() {
            return;
        }
        guard::crumb_text(&format!("builder family kings + one man, white king on {}", sq_name(wk)));
        for bk in 0..64u8 {
            if bk == wk {
                continue;
            }
            for third in 0..64u8 {
                if third == wk || third == bk {
                    continue;
                }
                for c3 in 1..=12u8 {
                    let mut p = RefPos::empty();
                    let mut bb = BoardBuilder::new();
                    for (s, c) in [(wk, code(Kind::K, Col::W)), (bk, code(Kind::K, Col::B)), (third, c3)] {
                        p.bd[s as usize] = c;
                        let (k, col) = decode(c).unwrap();
                        bb.piece(lsq(s), lkind(k), lcol(col));
                    }
                    for stm in [Col::W, Col::B] {
                        p.stm = stm;
                        bb.side_to_move(lcol(stm));
                        for &r in rights_alpha.iter() {
                            // rights can only matter when some king stands on e1 or e8 (either colour!):
                            // skip the rest except "none"
                            if r != 0 && ![4u8, 60].contains(&wk) && ![4u8, 60].contains(&bk) {
                                continue;
                            }
                            p.castle = r;
                            bb.castle_rights(Color::White, lrights(r & WK != 0, r & WQ != 0));
                            bb.castle_rights(Color::Black, lrights(r & BK != 0, r & BQ != 0));
                            for &e in ep_alpha.iter() {
                                // an en-passant file can only matter when the third man is a pawn
                                if e >= 0 && (c3 - 1) % 6 != 0 {
                                    continue;
                                }
                                p.dp = e;
                                bb.en_passant(if e < 0 { None } else { Some(lfile(e)) });
                                if !judge_builder(run, &bb, &p, "kings plus one man") {
                                    return;
                                }
                            }
                        }
                    }
                }
            }
        }
    });
    // (b) castling-right backing: kings on/off home, every corner empty / own rook / own bishop /
    //     enemy rook, all 16 rights sets, both sides to move
    let corner_opts = |own: Col| -> [Option<(Kind, Col)>; 4] { [None, Some((Kind::R, own)), Some((Kind::B, own)), Some((Kind::R, own.flip()))] };
    for wk in [4u8, 3] {
        for bk in [60u8, 59] {
            for corners in 0..256u32 {
                let mut p = RefPos::empty();
                let mut bb = BoardBuilder::new();
                p.put(wk, Kind::K, Col::W);
                p.put(bk, Kind::K, Col::B);
                bb.piece(lsq(wk), lkind(Kind::K), lcol(Col::W));
                bb.piece(lsq(bk), lkind(Kind::K), lcol(Col::B));
                for (i, (sqr, own)) in [(0u8, Col::W), (7, Col::W), (56, Col::B), (63, Col::B)].iter().enumerate() {
                    if let Some((k, c)) = corner_opts(*own)[((corners >> (2 * i)) & 3) as usize] {
                        p.put(*sqr, k, c);
                        bb.piece(lsq(*sqr), lkind(k), lcol(c));
                    }
                }
                for stm in [Col::W, Col::B] {
                    p.stm = stm;
                    bb.side_to_move(lcol(stm));
                    for r in 0..16u8 {
                        p.castle = r;
                        bb.castle_rights(Color::White, lrights(r & WK != 0, r & WQ != 0));
                        bb.castle_rights(Color::Black, lrights(r & BK != 0, r & BQ != 0));
                        if !judge_builder(run, &bb, &p, "castling-right backing") {
                            return;
                        }
                    }
                }
            }
        }
    }
    // (c) en-passant shape: on rank 4 or 5, file f: no man / white pawn / black pawn; each
    //     neighbour likewise; the passed-over square empty or occupied; every en-passant file
    for (wk, bk) in [(6u8, 62u8), (2, 58), (0, 63), (7, 56)] {
        for rank in [3i8, 4] {
            for f in 0..8i8 {
                for cfg in 0..27u32 {
                    for blocked in [false, true] {
                        let mut p = RefPos::empty();
                        let mut bb = BoardBuilder::new();
                        let mut put = |p: &mut RefPos, bb: &mut BoardBuilder, s: Sq, k: Kind, c: Col| {
                            if p.bd[s as usize] == 0 {
                                p.put(s, k, c);
                                bb.piece(lsq(s), lkind(k), lcol(c));
                            }
                        };
                        put(&mut p, &mut bb, wk, Kind::K, Col::W);
                        put(&mut p, &mut bb, bk, Kind::K, Col::B);
                        for (i, df) in [0i8, -1, 1].iter().enumerate() {
                            let v = (cfg / 3u32.pow(i as u32)) % 3;
                            let ff = f + df;
                            if v > 0 && (0..8).contains(&ff) {
                                put(&mut p, &mut bb, sq(ff, rank), Kind::P, if v == 1 { Col::W } else { Col::B });
                            }
                        }
                        if blocked {
                            let behind = if rank == 3 { 2 } else { 5 };
                            put(&mut p, &mut bb, sq(f, behind), Kind::N, Col::W);
                        }
                        for stm in [Col::W, Col::B] {
                            p.stm = stm;
                            bb.side_to_move(lcol(stm));
                            for e in -1..8i8 {
                                p.dp = e;
                                bb.en_passant(if e < 0 { None } else { Some(lfile(e)) });
                                if !judge_builder(run, &bb, &p, "en-passant shape") {
                                    return;
                                }
                            }
                        }
                    }
                }
            }
        }
    }
}

// ------------------------------------------------------------------------------------------ crowded boards

fn crowded(run: &Run, tier: Tier) {
    let mut patterns: Vec<(&str, Vec<u8>)> = vec![];
    patterns.push(("dark squares", (0..64u8).filter(|s| (s / 8 + s % 8) % 2 == 0).collect()));
    patterns.push(("light squares", (0..64u8).filter(|s| (s / 8 + s % 8) % 2 == 1).collect()));
    patterns.push(("alternate ranks", (0..64u8).filter(|s| (s / 8) % 2 == 1).collect()));
    patterns.push(("alternate files", (0..64u8).filter(|s| (s % 8) % 2 == 0).collect()));
    patterns.push(("filled from a2 upwards", (8..56u8).collect()));
    patterns.push(("filled from h7 downwards", (8..56u8).rev().collect()));
    let max_men = AtomicU64::new(0);
    // one kind, or two kinds alternating (a crowd that no single per-kind limit sees)
    let kinds: Vec<(Kind, Kind)> = vec![(Kind::N, Kind::N), (Kind::B, Kind::B), (Kind::R, Kind::R), (Kind::Q, Kind::Q), (Kind::P, Kind::P), (Kind::N, Kind::R), (Kind::N, Kind::B), (Kind::N, Kind::Q), (Kind::B, Kind::R), (Kind::B, Kind::Q), (Kind::R, Kind::Q), (Kind::Q, Kind::P)];
    let jobs: Vec<(usize, (Kind, Kind), Col)> = (0..patterns.len()).flat_map(|i| kinds.clone().into_iter().flat_map(move |k| [Col::W, Col::B].into_iter().map(move |c| (i, k, c)))).collect();
    jobs.par_iter().for_each(|&(pi, (kind1, kind2), me)| {
        let (_, pat) = &patterns[pi];
        let stepn = tier.pick(2usize, 1usize);
        for n in (0..=pat.len()).step_by(stepn) {
            // two alternating kinds only matter where a single kind would already be refused or nearly so
            if kind1 != kind2 && n < 12 {
                continue;
            }
            // own king: first square of the board that the pattern prefix does not use
            let used: BTreeSet<u8> = pat[..n].iter().copied().collect();
            let own_k = match (0..64u8).find(|s| !used.contains(s)) {
                Some(s) => s,
                None => continue,
            };
            for ek in 0..64u8 {
                if used.contains(&ek) || ek == own_k {
                    continue;
                }
                if run.has_violation() {
                    return;
                }
                let mut p = RefPos::empty();
                let mut bb = BoardBuilder::new();
                for (idx, &s) in pat[..n].iter().enumerate() {
                    let kind = if idx % 2 == 0 { kind1 } else { kind2 };
                    if kind == Kind::P && (s < 8 || s >= 56) {
                        continue;
                    }
                    p.put(s, kind, me);
                    bb.piece(lsq(s), lkind(kind), lcol(me));
                }
                p.put(own_k, Kind::K, me);
                bb.piece(lsq(own_k), lkind(Kind::K), lcol(me));
                p.put(ek, Kind::K, me.flip());
                bb.piece(lsq(ek), lkind(Kind::K), lcol(me.flip()));
                for stm in [me, me.flip()] {
                    p.stm = stm;
                    bb.side_to_move(lcol(stm));
                    guard::crumb_text(&format!("crowded board {}", p.fen()));
                    run.add("crowded_boards_tried", 1);
                    let before = run.get("builder_states_accepted");
                    if !judge_builder(run, &bb, &p, "crowded board") {
                        return;
                    }
                    if run.get("builder_states_accepted") > before {
                        run.add("crowded_boards_accepted", 1);
                        max_men.fetch_max(p.count(me) as u64, Ordering::Relaxed);
                    }
                }
            }
        }
    });
    run.add("crowded_max_men_of_a_colour_accepted", max_men.load(Ordering::Relaxed));
    // legal chess with more than the normal material (promoted men)
    for f in [
        "QQQQQQQQ/8/8/8/8/8/k7/4K2R w K - 0 1",
        "1k6/8/8/8/8/8/qqqqqqqq/rnb1K1nr b - - 0 1",
        "NNNNNNNN/8/8/8/8/8/7k/RNBQKBNR w KQ - 0 1",
        "RRRRRRRR/8/8/8/8/8/k7/RNBQKBNR w KQ - 0 1",
        "rnbqkbnr/pppppppp/8/8/8/8/PPPPPPPP/RNBQKBNR w KQkq - 0 1",
    ] {
        judge_text(run, f);
        run.add("texts_tried", 1);
    }
}

// ------------------------------------------------------------------------------------------ universes

pub struct C07Universe;
impl PosOracle for C07Universe {
    fn id(&self) -> &'static str {
        "C07"
    }
    fn state(&self, run: &Run, s: &St) -> Judged {
        // reaching here means the builder accepted the reference-valid position (clause 3);
        // the standard FEN must be accepted too, and the board must be safe to use (clause 4)
        let txt = s.key.fen();
        match guard::lib(|| Board::from_str(&txt)).map_err(|e| Finding::new("parse-panic", "", e))? {
            Ok(_) => {}
            Err(e) => return Err(Finding::new("valid-rejected", "standard FEN of a valid position rejected", format!("{txt}: {e}"))),
        }
        if let Err((clause, detail)) = necessary(&s.lib) {
            return Err(Finding::new(clause, "universe position", detail));
        }
        let b = s.lib;
        match guard::lib(move || exercise(&b)) {
            Ok(n) => {
                run.add("moves_applied_on_accepted_boards", n);
                run.add("accepted_boards_exercised", 1);
            }
            Err(e) => return Err(Finding::new("accepted-unsafe", "panic while using an accepted board", e)),
        }
        run.add("universe_positions_accepted", 1);
        Ok(())
    }
}

pub const RULE: &str = "text: (i) the complete product placement(~200: valid ones, ranks not summing to 8, digit runs that wrap the file counter, 7 and 9 ranks, empty, stray letters, multi-byte characters) x side(7) x castling(14) x en passant(27) x tail(4); (ii) the complete 1-edit ball (insert / delete / substitute at every index, 48-symbol alphabet incl. tab, LF, 2/3/4-byte characters and 2-byte characters whose low byte equals p, K, 8, /, w, -, space) of ~50 seed FENs (thorough: the 2-edit ball of 3 short seeds); (iii) every string of length <= 3 (thorough 4); (iv) digit runs: each digit repeated 1..=300 times inside the first, a middle and the last rank, followed by nothing, a king, a pawn or another digit. builder: EVERY builder state with <= 2 men (thorough 3) of any kind and colour on any squares (0-3 kings of a colour, pawns on the back ranks included) x both sides to move x a rights alphabet x an en-passant-file alphabet; structured builder families: (a) both kings anywhere (adjacent included) plus one man of any of the 12 kinds anywhere x side x rights x en-passant file; (b) castling-right backing: kings on/off home x every corner empty / own rook / own bishop / enemy rook x all 16 rights sets; (c) en-passant shape: a pawn of either colour or none on file f of rank 4/5 and on each neighbour file, passed-over square empty or occupied, every en-passant file; crowded boards: for 6 square patterns x 12 kind choices (5 single kinds, 7 pairs of kinds alternating) x 2 colours, n = 0..|pattern| men of one colour laid down in pattern order, the enemy king on every free square, either colour to move (on boards with more than 14 men of a colour the exercise also generates the replies to every move); the standard position universes (every reference-valid position must be accepted from the builder and from its standard FEN). Oracle: (1) no panic / abort; (2) accepted => one king each, side not to move not attacked, rights backed by king and rook at home, en_passant() names an enemy pawn on its double-push rank; (3) reference-valid => accepted; between (2) and (3) either answer; (4) every accepted board: full move generation, len, status, rendering, null move, hash, make_move_new and make_move of every generated move, inside catch_unwind in the debug-assertion build. distinct_nontrivial = accepted inputs (each is exercised)";

pub fn run(tier: Tier) -> i32 {
    let run = Arc::new(Run::new("C07", tier, COUNTERS));
    let mut phases: Vec<(String, f64)> = vec![];
    let mut t0 = run.elapsed();
    let mut lap = |name: &str, run: &Run, phases: &mut Vec<(String, f64)>| {
        let t = run.elapsed();
        phases.push((name.to_string(), t - t0));
        t0 = t;
    };
    digit_runs(&run);
    crowded(&run, tier);
    lap("crowded boards", &run, &mut phases);
    if !run.has_violation() {
        field_product(&run);
        lap("text field product", &run, &mut phases);
    }
    if !run.has_violation() {
        edit_balls(&run, tier);
        lap("text edit balls", &run, &mut phases);
    }
    if !run.has_violation() {
        short_strings(&run, tier.pick(3, 4));
        lap("short strings", &run, &mut phases);
    }
    if !run.has_violation() {
        match tier {
            Tier::Quick => builder_states(&run, 2, &(0..16u8).collect::<Vec<_>>(), &[-1, 0, 1, 2, 3, 4, 5, 6, 7]),
            Tier::Thorough => {
                builder_states(&run, 2, &(0..16u8).collect::<Vec<_>>(), &[-1, 0, 1, 2, 3, 4, 5, 6, 7]);
                builder_states(&run, 3, &[0, WK, WK | WQ, BQ], &[-1, 0, 4, 7]);
            }
        }
    }
    lap("builder states with few men", &run, &mut phases);
    if !run.has_violation() {
        structured_builder_states(&run);
        lap("structured builder families", &run, &mut phases);
    }
    if run.over_budget() {
        run.cap("wall-clock budget reached during the builder-state enumeration (first-man slices not started were skipped)".into());
    }
    if !run.has_violation() {
        let oracle = Arc::new(C07Universe);
        let mut plan = standard_plan(tier, 4);
        for (_, cd) in plan.families.iter_mut() {
            *cd = 0;
        }
        run_plan(&run, &oracle, &plan);
    }
    lap("standard universes", &run, &mut phases);
    run.note("phase_seconds", json!(phases.iter().map(|(n, t)| json!({"phase": n, "seconds": t})).collect::<Vec<_>>()));
    let acc = run.get("texts_accepted") + run.get("builder_states_accepted") + run.get("universe_positions_accepted");
    run.nontrivial.store(acc, Ordering::Relaxed);
    run.evaluations.store(run.get("texts_tried") + run.get("builder_states_tried") + run.get("universe_positions_accepted"), Ordering::Relaxed);
    run.sample(json!({"kind": "fen-text", "text": "rnbqkbnr/pppppppp/44p/8/8/8/PPPPPPPP/RNBQKBNR w KQkq e3 0 1"}));
    run.sample(json!({"kind": "builder", "cells": [["a1", "K"], ["h8", "k"], ["e4", "P"]], "stm": "b", "rights": 0, "ep_file": 4}));
    run.sample(json!({"kind": "crowded", "fen": "k7/8/8/N1N1N1N1/1N1N1N1N/N1N1N1N1/1N1N1N1N/K1N1N1N1 w - - 0 1"}));
    run.assume(A_REF);
    run.assume("between the necessary conditions (2) and full chess validity (3) either answer is accepted (T2): pawns on the back rank, occupied passed-over square, 9 queens ...");
    run.finish("model_checking", RULE, true, json!({}))
}

pub fn replay(case: &Value) -> i32 {
    let run = Arc::new(Run::new("C07", Tier::Quick, COUNTERS));
    match case["kind"].as_str() {
        Some("fen-text") => {
            judge_text(&run, case["text"].as_str().unwrap_or(""));
        }
        Some("builder") => match builder_from_case(case) {
            Some(bb) => {
                let mut p = RefPos::empty();
                for s in 0..64u8 {
                    if let Some((k, c)) = bb[lsq(s)] {
                        p.put(s, rkind(k), rcol(c));
                    }
                }
                p.stm = rcol(bb.get_side_to_move());
                p.castle = rrights_bits(bb.get_castle_rights(Color::White), bb.get_castle_rights(Color::Black));
                p.dp = bb.get_en_passant().map(|s| file_of(rsq(s))).unwrap_or(-1);
                judge_builder(&run, &bb, &p, "builder state");
            }
            None => {
                eprintln!("machinery: bad builder case");
                return 2;
            }
        },
        Some("fen") => {
            judge_text(&run, case["fen"].as_str().unwrap_or(""));
        }
        Some("posgraph") => return replay_e1("C07", COUNTERS, C07Universe, case),
        _ => {
            eprintln!("machinery: unknown C07 case kind");
            return 2;
        }
    }
    let _ = CastleRights::NoRights;
    crate::replay_verdict(&run)
}
