//! C09 — the position hash separates positions that differ in any component.
//! (a) sibling sweep: every single-component variant of a set of base positions;
//! (b) collision table over every distinct position met while exploring the standard universes.

use super::common::*;
use crate::bridge::*;
use crate::engine::plan::*;
use crate::engine::posgraph::*;
use crate::guard;
use crate::refmodel::*;
use crate::run::{Run, Tier, Violation};
use crate::universe::*;
use crate::util::*;
use serde_json::{json, Value};
use std::collections::{BTreeMap, BTreeSet};
use std::sync::atomic::Ordering;
use std::sync::Arc;

pub const COUNTERS: &[&str] = &["sibling_bases", "sibling_variants_square", "sibling_variants_side", "sibling_variants_rights", "sibling_variants_ep", "sibling_pairs_compared", "piece_square_keys_exercised", "collision_table_positions", "collision_table_hashes", "double_variants", "keys_observed", "key_dependencies_found"];

pub struct C09 {
    /// get_hash() -> packed observable position
    pub table: ShardMap<u64, Packed>,
}

impl PosOracle for C09 {
    fn id(&self) -> &'static str {
        "C09"
    }
    fn max_nulls(&self) -> u8 {
        1
    }
    fn state(&self, run: &Run, s: &St) -> Judged {
        let b = s.lib;
        let h = guard::lib(|| b.get_hash()).map_err(|e| Finding::new("panic", "get_hash panicked", e))?;
        let o = observe(&b);
        match self.table.insert_check(h, pack(&o)) {
            Seen::Differs(old) => {
                let other = unpack(&old);
                run.report(Violation::new("C09", "collision", "", format!("hash {h:#018x} is shared by the different positions {} and {}", o.describe(), other.fen()), json!({"kind": "collision", "a": s.key.fen(), "b": other.fen()})));
                Ok(())
            }
            Seen::New => {
                let n = run.states.load(Ordering::Relaxed);
                run.sample_nth(n, 300_007, || json!({"kind": "collision-table entry", "position": o.describe(), "hash": format!("{h:#018x}")}));
                Ok(())
            }
            Seen::Same => Ok(()),
        }
    }
}

/// All single-component variants of `base` that are valid positions (per the reference) and
/// accepted by the library, with their hashes.  Returns (description, observable fp, hash).
fn siblings(run: &Run, base: &RefPos) -> Result<Vec<(String, RefPos, u64)>, String> {
    let mut out = vec![];
    let mut push = |what: String, p: RefPos, run: &Run, counter: &'static str| {
        if !p.is_valid() {
            return;
        }
        if let Ok(Ok(b)) = guard::lib(|| from_scratch(&p)) {
            // the variant must really differ in what the library can observe
            let o = observe(&b);
            out.push((what, o, p, b.get_hash()));
            run.add(counter, 1);
        }
    };
    push("base".into(), *base, run, "sibling_bases");
    for s in 0..64u8 {
        for code_v in 0..=12u8 {
            if base.bd[s as usize] == code_v {
                continue;
            }
            let mut p = *base;
            p.bd[s as usize] = code_v;
            push(format!("{} := {}", sq_name(s), decode(code_v).map(|(k, c)| piece_char(k, c).to_string()).unwrap_or("empty".into())), p, run, "sibling_variants_square");
        }
    }
    let mut p = *base;
    p.stm = base.stm.flip();
    p.dp = -1;
    let mut b0 = *base;
    b0.dp = -1;
    push("base without ep state".into(), b0, run, "sibling_variants_ep");
    push("other side to move (no ep state)".into(), p, run, "sibling_variants_side");
    for bits in 0..16u8 {
        if bits != base.castle {
            let mut p = *base;
            p.castle = bits;
            push(format!("castling rights := {}", p.castle_field()), p, run, "sibling_variants_rights");
        }
    }
    for f in -1..8i8 {
        if f != base.dp {
            let mut p = *base;
            p.dp = f;
            push(format!("ep file := {}", f), p, run, "sibling_variants_ep");
        }
    }
    // group by observable position: variants the library cannot tell apart are the same position
    let mut by_obs: BTreeMap<Obs, (String, RefPos, u64)> = BTreeMap::new();
    for (what, o, p, h) in out {
        if let Some((w0, _, h0)) = by_obs.get(&o) {
            if *h0 != h {
                return Err(format!("same observable position, two hashes: '{}' and '{}' at {}", w0, what, p.fen()));
            }
        } else {
            by_obs.insert(o, (what, p, h));
        }
    }
    Ok(by_obs.into_values().collect())
}

fn sibling_sweep(run: &Arc<Run>, bases: &[RefPos]) {
    use rayon::prelude::*;
    let keys: std::sync::Mutex<BTreeSet<(u8, u8)>> = std::sync::Mutex::new(BTreeSet::new());
    bases.par_iter().for_each(|base| {
        if run.has_violation() {
            return;
        }
        crumb_pos(base, None);
        match siblings(run, base) {
            Err(e) => {
                run.report(Violation::new("C09", "sibling-same-observable", "", e, json!({"kind": "siblings", "base": base.fen()})));
            }
            Ok(sib) => {
                let mut seen: BTreeMap<u64, &(String, RefPos, u64)> = BTreeMap::new();
                for x in sib.iter() {
                    if let Some(y) = seen.get(&x.2) {
                        let comp = if x.0.contains(":=") && x.0.contains("rights") || y.0.contains("rights") { "castling rights" } else if x.0.contains("ep") || y.0.contains("ep") { "en-passant file" } else if x.0.contains("side") || y.0.contains("side") { "side to move" } else { "piece placement" };
                        run.report(Violation::new(
                            "C09",
                            "sibling-equal-hash",
                            comp,
                            format!("positions '{}' ({}) and '{}' ({}) of base {} differ in one component each but share hash {:#018x}", x.0, x.1.fen(), y.0, y.1.fen(), base.fen(), x.2),
                            json!({"kind": "siblings", "base": base.fen()}),
                        ));
                        return;
                    }
                    seen.insert(x.2, x);
                }
                let n = sib.len() as u64;
                run.add("sibling_pairs_compared", n * (n - 1) / 2);
                run.evaluations.fetch_add(n, Ordering::Relaxed);
                run.nontrivial.fetch_add(n.saturating_sub(1), Ordering::Relaxed);
                let mut k = keys.lock().unwrap();
                for x in sib.iter() {
                    for s in 0..64u8 {
                        if x.1.bd[s as usize] != 0 {
                            k.insert((s, x.1.bd[s as usize]));
                        }
                    }
                }
            }
        }
    });
    run.add("piece_square_keys_exercised", keys.lock().unwrap().len() as u64);
    {
        let k = keys.lock().unwrap();
        let mut missing = vec![];
        for s in 0..64u8 {
            for c in 1..=12u8 {
                if !k.contains(&(s, c)) {
                    let (kind, col) = decode(c).unwrap();
                    missing.push(format!("{}{}", piece_char(kind, col), sq_name(s)));
                }
            }
        }
        run.note("piece_square_keys_not_exercised_by_siblings", json!(missing));
    }
    if let Some(b) = bases.first() {
        run.sample(json!({"kind": "sibling base", "fen": b.fen(), "variants": "each square := each of 13 contents, other side to move, all 16 rights sets, all 9 ep-file states; invalid or rejected variants skipped; variants grouped by observable position"}));
    }
}

pub const STATE_RICH_BASES: &[&str] = &[
    "r3k2r/8/8/PpPpPpPp/pPpPpPpP/8/8/R3K2R w KQkq - 0 1",
    "r3k2r/8/8/pPpPpPpP/PpPpPpPp/8/8/R3K2R b KQkq - 0 1",
    "4k3/8/8/PpPpPpPp/pPpPpPpP/8/8/4K3 w - - 0 1",
];

#[derive(Clone, Copy)]
enum Var {
    Sq(u8, u8),
    Side,
    Rights(u8),
    Ep(i8),
}
fn apply_var(p: &mut RefPos, v: Var) {
    match v {
        Var::Sq(s, c) => p.bd[s as usize] = c,
        Var::Side => {
            p.stm = p.stm.flip();
            p.dp = -1;
        }
        Var::Rights(b) => p.castle = b,
        Var::Ep(f) => p.dp = f,
    }
}
/// (c) every position that differs from a base in TWO components (two squares, or a square and
/// side / rights / en-passant state, or two of the latter) goes into the collision table: a
/// relation k1 ^ k2 == k3 ^ k4 among four keys (e.g. keys that are separable into a square part
/// and a piece part) makes two such positions collide although all single-component variants differ.
fn double_variant_sweep(run: &Arc<Run>, oracle: &C09, bases: &[RefPos]) {
    use rayon::prelude::*;
    for base in bases {
        let mut vars: Vec<Var> = vec![];
        for s in 0..64u8 {
            for c in 0..=12u8 {
                if base.bd[s as usize] != c {
                    vars.push(Var::Sq(s, c));
                }
            }
        }
        vars.push(Var::Side);
        for b in 0..16u8 {
            if b != base.castle {
                vars.push(Var::Rights(b));
            }
        }
        for f in -1..8i8 {
            if f != base.dp {
                vars.push(Var::Ep(f));
            }
        }
        (0..vars.len()).into_par_iter().for_each(|i| {
            if run.has_violation() || run.over_budget() {
                return;
            }
            for j in i..vars.len() {
                // j == i: the single variant itself (and, once, the base) also enters the table
                let (a, b) = (vars[i], vars[j]);
                let same_component = match (a, b) {
                    (Var::Sq(x, _), Var::Sq(y, _)) => x == y,
                    (Var::Rights(_), Var::Rights(_)) | (Var::Ep(_), Var::Ep(_)) => true,
                    _ => false,
                };
                if same_component && j != i {
                    continue;
                }
                let mut p = *base;
                apply_var(&mut p, a);
                if j != i {
                    // the side flip clears the en-passant state: it is applied before an ep variant
                    apply_var(&mut p, b);
                }
                if !p.is_valid() {
                    continue;
                }
                let bd = match guard::lib(|| from_scratch(&p)) {
                    Ok(Ok(bd)) => bd,
                    _ => continue,
                };
                let h = bd.get_hash();
                let o = observe(&bd);
                run.add("double_variants", 1);
                if let Seen::Differs(old) = oracle.table.insert_check(h, pack(&o)) {
                    let other = unpack(&old);
                    run.report(Violation::new("C09", "collision", "", format!("hash {h:#018x} is shared by the different positions {} and {} (two-component variants of {})", o.describe(), other.fen(), base.fen()), json!({"kind": "collision", "a": p.fen(), "b": other.fen()})));
                    return;
                }
            }
        });
    }
}

// ------------------------------------------------------------------------------------------
// (d) linear dependencies among few keys.  The keys the library uses are observed (hash with the man
// ^ hash without, on three-man positions; en-passant keys on a two-pawn position).  Inside each
// (colour, kind) table — the pawn tables extended by the en-passant keys of that colour — every
// subset of up to 8 keys that XORs to zero is found by meet-in-the-middle over all subsets of up to 4
// keys; over ALL piece keys together every dependency of up to 4 keys.  Random 64-bit keys have none
// (expected number < 10^-9 per table).  Every dependency found is turned into two different valid
// positions (all ways of dealing its keys to the two sides, kings and the capturing pawn added), and
// the pair is reported only if their REAL hashes are equal.

#[derive(Clone, Copy, PartialEq, Eq, Debug, PartialOrd, Ord)]
enum KeyId {
    Man(Col, Kind, Sq),
    /// en-passant state on this file after a double push by this colour
    Ep(Col, i8),
}

fn observed_keys() -> Vec<(KeyId, u64)> {
    let h = |p: &RefPos| if p.is_valid() { from_scratch(p).ok().map(|b| b.get_hash()) } else { None };
    let corners: [(Sq, Sq); 4] = [(sq(0, 0), sq(7, 7)), (sq(7, 0), sq(0, 7)), (sq(0, 7), sq(7, 0)), (sq(7, 7), sq(0, 0))];
    let mut out = vec![];
    for col in [Col::W, Col::B] {
        for kind in [Kind::P, Kind::N, Kind::B, Kind::R, Kind::Q] {
            for s in 0..64u8 {
                for (wk, bk) in corners {
                    if s == wk || s == bk {
                        continue;
                    }
                    let mut b0 = RefPos::empty();
                    b0.put(wk, Kind::K, Col::W);
                    b0.put(bk, Kind::K, Col::B);
                    b0.stm = col;
                    let mut b1 = b0;
                    b1.put(s, kind, col);
                    if let (Some(x), Some(y)) = (h(&b0), h(&b1)) {
                        out.push((KeyId::Man(col, kind, s), x ^ y));
                        break;
                    }
                }
            }
        }
        // en-passant keys: pusher `col`, pawn on its double-push rank, an enemy pawn beside it
        for f in 0..8i8 {
            let nf = if f < 7 { f + 1 } else { f - 1 };
            let r = col.dp_rank();
            for (wk, bk) in [(sq(0, 0), sq(7, 7)), (sq(7, 0), sq(0, 7))] {
                let mut b0 = RefPos::empty();
                b0.put(wk, Kind::K, Col::W);
                b0.put(bk, Kind::K, Col::B);
                b0.put(sq(f, r), Kind::P, col);
                b0.put(sq(nf, r), Kind::P, col.flip());
                b0.stm = col.flip();
                let mut b1 = b0;
                b1.dp = f;
                if std::env::var("CV_DEBUG_PAIRS").is_ok() {
                    eprintln!("ep key probe {} / {}: valid {} {} ({:?}); hashes {:?} {:?}", b0.fen(), b1.fen(), b0.is_valid(), b1.is_valid(), b1.invalid_reason(), h(&b0), h(&b1));
                }
                if let (Some(x), Some(y)) = (h(&b0), h(&b1)) {
                    if x != y {
                        out.push((KeyId::Ep(col, f), x ^ y));
                    }
                    break;
                }
            }
        }
    }
    out
}

/// All XOR-dependencies of at most 2 * half keys inside `keys` (indices into it).
fn dependencies(keys: &[u64], half: usize) -> Vec<Vec<usize>> {
    let n = keys.len();
    let mut subs: Vec<(u64, u128)> = vec![];
    fn rec(keys: &[u64], start: usize, left: usize, x: u64, mask: u128, out: &mut Vec<(u64, u128)>) {
        if mask != 0 {
            out.push((x, mask));
        }
        if left == 0 {
            return;
        }
        for i in start..keys.len() {
            rec(keys, i + 1, left - 1, x ^ keys[i], mask | (1u128 << i), out);
        }
    }
    assert!(n <= 128);
    rec(keys, 0, half, 0, 0, &mut subs);
    subs.sort_unstable();
    let mut found: BTreeSet<u128> = BTreeSet::new();
    let mut i = 0;
    while i < subs.len() {
        let mut j = i + 1;
        while j < subs.len() && subs[j].0 == subs[i].0 {
            j += 1;
        }
        if subs[i].0 == 0 {
            for k in i..j {
                found.insert(subs[k].1);
            }
        }
        if j - i > 1 && j - i < 64 {
            for a in i..j {
                for b in (a + 1)..j {
                    let d = subs[a].1 ^ subs[b].1;
                    if d != 0 {
                        found.insert(d);
                    }
                }
            }
        }
        i = j;
    }
    // keep the minimal ones
    let all: Vec<u128> = found.iter().copied().collect();
    all.iter().filter(|d| !all.iter().any(|e| e != *d && (*e & **d) == *e)).map(|d| (0..n).filter(|i| d & (1u128 << i) != 0).collect()).collect()
}

fn realise(dep: &[KeyId]) -> Option<(RefPos, RefPos)> {
    let n = dep.len();
    let ep: Option<(Col, i8)> = dep.iter().find_map(|k| if let KeyId::Ep(c, f) = k { Some((*c, *f)) } else { None });
    if dep.iter().filter(|k| matches!(k, KeyId::Ep(..))).count() > 1 {
        return None;
    }
    let used: Vec<Sq> = dep.iter().filter_map(|k| if let KeyId::Man(_, _, s) = k { Some(*s) } else { None }).collect();
    for part in 0..(1u32 << n) {
        // the en-passant key, if any, goes to side A; mirror-image partitions are skipped
        if part & 1 == 0 {
            continue;
        }
        let (mut a, mut b) = (RefPos::empty(), RefPos::empty());
        let mut ok = true;
        let mut a_has_ep = false;
        for (i, k) in dep.iter().enumerate() {
            let to_a = part & (1 << i) != 0;
            match k {
                KeyId::Man(c, kind, s) => {
                    let t = if to_a { &mut a } else { &mut b };
                    if t.bd[*s as usize] != 0 {
                        ok = false;
                        break;
                    }
                    t.put(*s, *kind, *c);
                }
                KeyId::Ep(..) => {
                    if !to_a {
                        ok = false;
                        break;
                    }
                    a_has_ep = true;
                }
            }
        }
        if !ok || a == b {
            continue;
        }
        // common extras: the capturing pawn (and the pushed pawn unless it is part of the dependency), kings
        let mut extras: Vec<Vec<(Sq, Kind, Col)>> = vec![vec![]];
        let mut stms = vec![Col::W, Col::B];
        if let Some((pc, f)) = ep {
            if !a_has_ep {
                continue;
            }
            let r = pc.dp_rank();
            extras.clear();
            for nf in [f - 1, f + 1] {
                if (0..8).contains(&nf) {
                    let mut e = vec![(sq(nf, r), Kind::P, pc.flip())];
                    if !used.contains(&sq(f, r)) {
                        e.push((sq(f, r), Kind::P, pc));
                    }
                    extras.push(e);
                }
            }
            stms = vec![pc.flip()];
        }
        for ex in extras.iter() {
            for (wk, bk) in [(sq(0, 0), sq(7, 7)), (sq(7, 0), sq(0, 7)), (sq(0, 7), sq(7, 0)), (sq(7, 7), sq(0, 0)), (sq(6, 0), sq(1, 7)), (sq(1, 0), sq(6, 7)), (sq(0, 2), sq(7, 5)), (sq(7, 2), sq(0, 5))] {
                for stm in stms.iter() {
                    let (mut pa, mut pb) = (a, b);
                    let mut good = true;
                    for (s, k, c) in ex.iter().copied().chain([(wk, Kind::K, Col::W), (bk, Kind::K, Col::B)]) {
                        if pa.bd[s as usize] != 0 || pb.bd[s as usize] != 0 {
                            good = false;
                            break;
                        }
                        pa.put(s, k, c);
                        pb.put(s, k, c);
                    }
                    if !good {
                        continue;
                    }
                    pa.stm = *stm;
                    pb.stm = *stm;
                    if let Some((_, f)) = ep {
                        pa.dp = f;
                    }
                    if pa.is_valid() && pb.is_valid() {
                        if let (Ok(x), Ok(y)) = (from_scratch(&pa), from_scratch(&pb)) {
                            if observe(&x) != observe(&y) && x.get_hash() == y.get_hash() {
                                return Some((pa, pb));
                            }
                        }
                    }
                }
            }
        }
    }
    None
}

fn key_dependency_sweep(run: &Arc<Run>) {
    use rayon::prelude::*;
    let keys = match guard::lib(observed_keys) {
        Ok(k) => k,
        Err(e) => {
            run.report(Violation::new("C09", "panic", "get_hash panicked on a three-man position", e, json!({"kind": "siblings", "base": "8/8/8/8/8/8/8/K6k w - - 0 1"})));
            return;
        }
    };
    run.add("keys_observed", keys.len() as u64);
    // groups: one per (colour, kind) table; pawn tables with that colour's en-passant keys
    let mut groups: Vec<Vec<usize>> = vec![];
    for col in [Col::W, Col::B] {
        for kind in [Kind::P, Kind::N, Kind::B, Kind::R, Kind::Q] {
            groups.push((0..keys.len()).filter(|i| match keys[*i].0 { KeyId::Man(c, k, _) => c == col && k == kind, KeyId::Ep(c, _) => kind == Kind::P && c == col }).collect());
        }
    }
    let mut deps: Vec<Vec<KeyId>> = groups
        .par_iter()
        .flat_map_iter(|g| {
            let ks: Vec<u64> = g.iter().map(|i| keys[*i].1).collect();
            dependencies(&ks, 4).into_iter().map(|d| d.into_iter().map(|j| keys[g[j]].0).collect::<Vec<KeyId>>()).collect::<Vec<_>>()
        })
        .collect();
    // all keys together: dependencies of up to 4 keys (pairs of pairs); 128-key windows are not enough here,
    // so pairs are sorted directly
    {
        let mut pairs: Vec<(u64, u32, u32)> = vec![];
        for i in 0..keys.len() {
            pairs.push((keys[i].1, i as u32, u32::MAX));
            for j in (i + 1)..keys.len() {
                pairs.push((keys[i].1 ^ keys[j].1, i as u32, j as u32));
            }
        }
        pairs.par_sort_unstable();
        for w in pairs.windows(2) {
            if w[0].0 == w[1].0 {
                let mut d: Vec<u32> = vec![w[0].1, w[0].2, w[1].1, w[1].2].into_iter().filter(|x| *x != u32::MAX).collect();
                d.sort();
                // symmetric difference
                let mut dd = vec![];
                for x in d.iter() {
                    if d.iter().filter(|y| *y == x).count() == 1 {
                        dd.push(*x);
                    }
                }
                if !dd.is_empty() {
                    deps.push(dd.into_iter().map(|i| keys[i as usize].0).collect());
                }
            }
        }
    }
    deps.sort();
    deps.dedup();
    run.add("key_dependencies_found", deps.len() as u64);
    let mut unrealised = 0u64;
    for d in deps.iter().take(200) {
        match realise(d) {
            Some((a, b)) => {
                run.report(Violation::new("C09", "collision", "", format!("the keys {:?} XOR to zero; the different positions {} and {} therefore share one hash", d, a.fen(), b.fen()), json!({"kind": "collision", "a": a.fen(), "b": b.fen()})));
                return;
            }
            None => unrealised += 1,
        }
    }
    if unrealised > 0 {
        run.note("key_dependencies_without_a_valid_position_pair", json!(deps.iter().take(20).map(|d| format!("{:?}", d)).collect::<Vec<_>>()));
    }
}

pub const RULE: &str = "(a) sibling sweep: for every base position (curated roots + a spread of 3-man and en-passant-family positions) all single-component variants that are valid positions — each square set to each of the 13 contents, the other side to move, all 16 castling-rights sets, all 9 en-passant states — grouped by observable position; all hashes within a sibling group must be pairwise different (XOR structure: this exercises every piece-square key that can legally occur, all castling and en-passant keys and the side key, and every pair inside a group). (b) collision table: every position of the standard universes goes into get_hash() -> observable position; two different positions under one hash is a collision. (c) for a few dense bases (quick 12, thorough 48) and six state-rich bases (all four rights, every file a possible en-passant file for either side on one placement) the base, EVERY single-component variant and EVERY valid position that differs from the base in two components (two squares; a square and side / rights / en-passant state; two of side / rights / en-passant state) also goes into that table, so that four-key relations k1^k2 = k3^k4 (separable or repeated key material) surface as collisions. (d) linear dependencies: the ~650 piece-square and en-passant keys are observed on the library (hash with ^ hash without); inside every (colour, kind) table — pawn tables with that colour's en-passant keys — EVERY subset of up to 8 keys that XORs to zero, and over all keys together every dependency of up to 4 keys, is found by meet-in-the-middle, turned into two different valid positions (all ways of dealing the keys to the two sides) and reported if their real hashes are equal. distinct_nontrivial = sibling variants compared + 0 for table entries (table size reported separately)";

pub fn run(tier: Tier) -> i32 {
    let run = Arc::new(Run::new("C09", tier, COUNTERS));
    // (a) siblings
    let mut bases: Vec<RefPos> = roots().into_iter().map(|r| r.pos).collect();
    let ep = EpFamily { extra: Extra::None, pre_push: false };
    let stride = tier.pick(997u64, 97u64);
    bases.extend((0..ep.size()).step_by(stride as usize).filter_map(|i| ep.get(i)));
    for f in three_man_families() {
        bases.extend((0..f.size()).step_by((stride * 23) as usize).filter_map(|i| f.get(i)));
    }
    // every king on every square at least once (a king key is only exercised by a base that has it)
    for s in 0..64u8 {
        for far in [63u8, 0, 7, 56] {
            let mut p = RefPos::empty();
            p.put(s, Kind::K, Col::W);
            if p.bd[far as usize] == 0 {
                p.put(far, Kind::K, Col::B);
                if p.is_valid() {
                    bases.push(p);
                    bases.push(p.mirror_v());
                    break;
                }
            }
        }
    }
    for f in STATE_RICH_BASES {
        let p = RefPos::from_fen(f).expect("machinery: state-rich base");
        bases.push(p);
        bases.push(p.mirror_v());
    }
    let cf = CastleFamily { extras: 1, opp_rights: true, opp_to_move: false };
    bases.extend((0..cf.size()).step_by(stride as usize).filter_map(|i| cf.get(i)));
    sibling_sweep(&run, &bases);
    run.note("sibling_bases", json!(bases.len()));
    // (b) collision table
    let oracle = Arc::new(C09 { table: ShardMap::new() });
    // (c) two-component variants of a few dense bases
    if !run.has_violation() {
        let rs = roots();
        let dense: Vec<RefPos> = rs.iter().map(|r| r.pos).filter(|p| p.men() >= 12).collect();
        let n2 = tier.pick(11usize, 47usize);
        let mut b2: Vec<RefPos> = vec![RefPos::from_fen("rnbqkbnr/pppppppp/8/8/8/8/PPPPPPPP/RNBQKBNR w KQkq - 0 1").unwrap()];
        // state-rich bases: every castling right present and EVERY file a possible en-passant file for
        // both colours on one placement, so that all pairs (and, with the side flip, triples) of side /
        // rights / en-passant keys meet in one table
        for f in STATE_RICH_BASES {
            let p = RefPos::from_fen(f).expect("machinery: state-rich base");
            b2.push(p);
            b2.push(p.mirror_v());
        }
        b2.extend(dense.iter().step_by((dense.len() / n2).max(1)).take(n2).copied());
        double_variant_sweep(&run, &oracle, &b2);
        run.note("double_variant_bases", json!(b2.iter().map(|p| p.fen()).collect::<Vec<_>>()));
    }
    if !run.has_violation() {
        key_dependency_sweep(&run);
    }
    if !run.has_violation() {
        run_plan(&run, &oracle, &standard_plan(tier, 1));
    }
    run.add("collision_table_hashes", oracle.table.len() as u64);
    run.add("collision_table_positions", run.states.load(Ordering::Relaxed));
    run.assume(A_REF);
    run.assume(A_FP);
    run.assume("a true 64-bit collision among n explored positions has probability about n^2 / 2^65 (n = 10^8: 3e-4); a reported collision names both positions so that it can be adjudicated");
    finish(&run, RULE)
}
pub fn replay(case: &Value) -> i32 {
    match case["kind"].as_str() {
        Some("siblings") => {
            let run = Arc::new(Run::new("C09", Tier::Quick, COUNTERS));
            match RefPos::from_fen(case["base"].as_str().unwrap_or("")) {
                Ok(b) => {
                    sibling_sweep(&run, &[b]);
                    crate::replay_verdict(&run)
                }
                Err(e) => {
                    eprintln!("machinery: {e}");
                    2
                }
            }
        }
        Some("collision") => {
            let run = Arc::new(Run::new("C09", Tier::Quick, COUNTERS));
            let get = |k: &str| RefPos::from_fen(case[k].as_str().unwrap_or("")).ok().and_then(|p| from_scratch(&p).ok());
            match (get("a"), get("b")) {
                (Some(a), Some(b)) => {
                    if observe(&a) != observe(&b) && a.get_hash() == b.get_hash() {
                        run.report(Violation::new("C09", "collision", "", format!("{} and {} share hash {:#018x}", a, b, a.get_hash()), case.clone()));
                    }
                    crate::replay_verdict(&run)
                }
                _ => {
                    eprintln!("machinery: collision replay positions do not build");
                    2
                }
            }
        }
        _ => replay_e1("C09", COUNTERS, C09 { table: ShardMap::new() }, case),
    }
}
