//! C09 — the position hash separates positions that differ in any component.
//! (a) sibling sweep: every single-component variant of a set of base positions;
//! (b) collision table over every distinct position met while exploring the standard universes.

use super::common::*;
use crate::bridge::*;
use crate::engine::plan::*;
use crate::engine::posgraph::*;
use crate::guard;
use crate::refmodel::*;
use crate::run::{Run, Tier, Violation};
use crate::universe::*;
use crate::util::*;
use serde_json::{json, Value};
use std::collections::{BTreeMap, BTreeSet};
use std::sync::atomic::Ordering;
use std::sync::Arc;

pub const COUNTERS: &[&str] = &["sibling_bases", "sibling_variants_square", "sibling_variants_side", "sibling_variants_rights", "sibling_variants_ep", "sibling_pairs_compared", "piece_square_keys_exercised", "collision_table_positions", "collision_table_hashes", "double_variants"];

pub struct C09 {
    /// get_hash() -> packed observable position
    pub table: ShardMap<u64, Packed>,
}

impl PosOracle for C09 {
    fn id(&self) -> &'static str {
        "C09"
    }
    fn max_nulls(&self) -> u8 {
        1
    }
    fn state(&self, run: &Run, s: &St) -> Judged {
        let b = s.lib;
        let h = guard::lib(|| b.get_hash()).map_err(|e| Finding::new("panic", "get_hash panicked", e))?;
        let o = observe(&b);
        match self.table.insert_check(h, pack(&o)) {
            Seen::Differs(old) => {
                let other = unpack(&old);
                run.report(Violation::new("C09", "collision", "", format!("hash {h:#018x} is shared by the different positions {} and {}", o.describe(), other.fen()), json!({"kind": "collision", "a": s.key.fen(), "b": other.fen()})));
                Ok(())
            }
            Seen::New => {
                let n = run.states.load(Ordering::Relaxed);
                run.sample_nth(n, 300_007, || json!({"kind": "collision-table entry", "position": o.describe(), "hash": format!("{h:#018x}")}));
                Ok(())
            }
            Seen::Same => Ok(()),
        }
    }
}

/// All single-component variants of `base` that are valid positions (per the reference) and
/// accepted by the library, with their hashes.  Returns (description, observable fp, hash).
fn siblings(run: &Run, base: &RefPos) -> Result<Vec<(String, RefPos, u64)>, String> {
    let mut out = vec![];
    let mut push = |what: String, p: RefPos, run: &Run, counter: &'static str| {
        if !p.is_valid() {
            return;
        }
        if let Ok(Ok(b)) = guard::lib(|| from_scratch(&p)) {
            // the variant must really differ in what the library can observe
            let o = observe(&b);
            out.push((what, o, p, b.get_hash()));
            run.add(counter, 1);
        }
    };
    push("base".into(), *base, run, "sibling_bases");
    for s in 0..64u8 {
        for code_v in 0..=12u8 {
            if base.bd[s as usize] == code_v {
                continue;
            }
            let mut p = *base;
            p.bd[s as usize] = code_v;
            push(format!("{} := {}", sq_name(s), decode(code_v).map(|(k, c)| piece_char(k, c).to_string()).unwrap_or("empty".into())), p, run, "sibling_variants_square");
        }
    }
    let mut p = *base;
    p.stm = base.stm.flip();
    p.dp = -1;
    let mut b0 = *base;
    b0.dp = -1;
    push("base without ep state".into(), b0, run, "sibling_variants_ep");
    push("other side to move (no ep state)".into(), p, run, "sibling_variants_side");
    for bits in 0..16u8 {
        if bits != base.castle {
            let mut p = *base;
            p.castle = bits;
            push(format!("castling rights := {}", p.castle_field()), p, run, "sibling_variants_rights");
        }
    }
    for f in -1..8i8 {
        if f != base.dp {
            let mut p = *base;
            p.dp = f;
            push(format!("ep file := {}", f), p, run, "sibling_variants_ep");
        }
    }
    // group by observable position: variants the library cannot tell apart are the same position
    let mut by_obs: BTreeMap<Obs, (String, RefPos, u64)> = BTreeMap::new();
    for (what, o, p, h) in out {
        if let Some((w0, _, h0)) = by_obs.get(&o) {
            if *h0 != h {
                return Err(format!("same observable position, two hashes: '{}' and '{}' at {}", w0, what, p.fen()));
            }
        } else {
            by_obs.insert(o, (what, p, h));
        }
    }
    Ok(by_obs.into_values().collect())
}

fn sibling_sweep(run: &Arc<Run>, bases: &[RefPos]) {
    use rayon::prelude::*;
    let keys: std::sync::Mutex<BTreeSet<(u8, u8)>> = std::sync::Mutex::new(BTreeSet::new());
    bases.par_iter().for_each(|base| {
        if run.has_violation() {
            return;
        }
        crumb_pos(base, None);
        match siblings(run, base) {
            Err(e) => {
                run.report(Violation::new("C09", "sibling-same-observable", "", e, json!({"kind": "siblings", "base": base.fen()})));
            }
            Ok(sib) => {
                let mut seen: BTreeMap<u64, &(String, RefPos, u64)> = BTreeMap::new();
                for x in sib.iter() {
                    if let Some(y) = seen.get(&x.2) {
                        let comp = if x.0.contains(":=") && x.0.contains("rights") || y.0.contains("rights") { "castling rights" } else if x.0.contains("ep") || y.0.contains("ep") { "en-passant file" } else if x.0.contains("side") || y.0.contains("side") { "side to move" } else { "piece placement" };
                        run.report(Violation::new(
                            "C09",
                            "sibling-equal-hash",
                            comp,
                            format!("positions '{}' ({}) and '{}' ({}) of base {} differ in one component each but share hash {:#018x}", x.0, x.1.fen(), y.0, y.1.fen(), base.fen(), x.2),
                            json!({"kind": "siblings", "base": base.fen()}),
                        ));
                        return;
                    }
                    seen.insert(x.2, x);
                }
                let n = sib.len() as u64;
                run.add("sibling_pairs_compared", n * (n - 1) / 2);
                run.evaluations.fetch_add(n, Ordering::Relaxed);
                run.nontrivial.fetch_add(n.saturating_sub(1), Ordering::Relaxed);
                let mut k = keys.lock().unwrap();
                for x in sib.iter() {
                    for s in 0..64u8 {
                        if x.1.bd[s as usize] != 0 {
                            k.insert((s, x.1.bd[s as usize]));
                        }
                    }
                }
            }
        }
    });
    run.add("piece_square_keys_exercised", keys.lock().unwrap().len() as u64);
    {
        let k = keys.lock().unwrap();
        let mut missing = vec![];
        for s in 0..64u8 {
            for c in 1..=12u8 {
                if !k.contains(&(s, c)) {
                    let (kind, col) = decode(c).unwrap();
                    missing.push(format!("{}{}", piece_char(kind, col), sq_name(s)));
                }
            }
        }
        run.note("piece_square_keys_not_exercised_by_siblings", json!(missing));
    }
    if let Some(b) = bases.first() {
        run.sample(json!({"kind": "sibling base", "fen": b.fen(), "variants": "each square := each of 13 contents, other side to move, all 16 rights sets, all 9 ep-file states; invalid or rejected variants skipped; variants grouped by observable position"}));
    }
}

pub const STATE_RICH_BASES: &[&str] = &[
    "r3k2r/8/8/PpPpPpPp/pPpPpPpP/8/8/R3K2R w KQkq - 0 1",
    "r3k2r/8/8/pPpPpPpP/PpPpPpPp/8/8/R3K2R b KQkq - 0 1",
    "4k3/8/8/PpPpPpPp/pPpPpPpP/8/8/4K3 w - - 0 1",
];

#[derive(Clone, Copy)]
enum Var {
    Sq(u8, u8),
    Side,
    Rights(u8),
    Ep(i8),
}
fn apply_var(p: &mut RefPos, v: Var) {
    match v {
        Var::Sq(s, c) => p.bd[s as usize] = c,
        Var::Side => {
            p.stm = p.stm.flip();
            p.dp = -1;
        }
        Var::Rights(b) => p.castle = b,
        Var::Ep(f) => p.dp = f,
    }
}
/// (c) every position that differs from a base in TWO components (two squares, or a square and
/// side / rights / en-passant state, or two of the latter) goes into the collision table: a
/// relation k1 ^ k2 == k3 ^ k4 among four keys (e.g. keys that are separable into a square part
/// and a piece part) makes two such positions collide although all single-component variants differ.
fn double_variant_sweep(run: &Arc<Run>, oracle: &C09, bases: &[RefPos]) {
    use rayon::prelude::*;
    for base in bases {
        let mut vars: Vec<Var> = vec![];
        for s in 0..64u8 {
            for c in 0..=12u8 {
                if base.bd[s as usize] != c {
                    vars.push(Var::Sq(s, c));
                }
            }
        }
        vars.push(Var::Side);
        for b in 0..16u8 {
            if b != base.castle {
                vars.push(Var::Rights(b));
            }
        }
        for f in -1..8i8 {
            if f != base.dp {
                vars.push(Var::Ep(f));
            }
        }
        (0..vars.len()).into_par_iter().for_each(|i| {
            if run.has_violation() || run.over_budget() {
                return;
            }
            for j in i..vars.len() {
                // j == i: the single variant itself (and, once, the base) also enters the table
                let (a, b) = (vars[i], vars[j]);
                let same_component = match (a, b) {
                    (Var::Sq(x, _), Var::Sq(y, _)) => x == y,
                    (Var::Rights(_), Var::Rights(_)) | (Var::Ep(_), Var::Ep(_)) => true,
                    _ => false,
                };
                if same_component && j != i {
                    continue;
                }
                let mut p = *base;
                apply_var(&mut p, a);
                if j != i {
                    // the side flip clears the en-passant state: it is applied before an ep variant
                    apply_var(&mut p, b);
                }
                if !p.is_valid() {
                    continue;
                }
                let bd = match guard::lib(|| from_scratch(&p)) {
                    Ok(Ok(bd)) => bd,
                    _ => continue,
                };
                let h = bd.get_hash();
                let o = observe(&bd);
                run.add("double_variants", 1);
                if let Seen::Differs(old) = oracle.table.insert_check(h, pack(&o)) {
                    let other = unpack(&old);
                    run.report(Violation::new("C09", "collision", "", format!("hash {h:#018x} is shared by the different positions {} and {} (two-component variants of {})", o.describe(), other.fen(), base.fen()), json!({"kind": "collision", "a": p.fen(), "b": other.fen()})));
                    return;
                }
            }
        });
    }
}

pub const RULE: &str = "(a) sibling sweep: for every base position (curated roots + a spread of 3-man and en-passant-family positions) all single-component variants that are valid positions — each square set to each of the 13 contents, the other side to move, all 16 castling-rights sets, all 9 en-passant states — grouped by observable position; all hashes within a sibling group must be pairwise different (XOR structure: this exercises every piece-square key that can legally occur, all castling and en-passant keys and the side key, and every pair inside a group). (b) collision table: every position of the standard universes goes into get_hash() -> observable position; two different positions under one hash is a collision. (c) for a few dense bases (quick 12, thorough 48) and six state-rich bases (all four rights, every file a possible en-passant file for either side on one placement) the base, EVERY single-component variant and EVERY valid position that differs from the base in two components (two squares; a square and side / rights / en-passant state; two of side / rights / en-passant state) also goes into that table, so that four-key relations k1^k2 = k3^k4 (separable or repeated key material) surface as collisions. distinct_nontrivial = sibling variants compared + 0 for table entries (table size reported separately)";

pub fn run(tier: Tier) -> i32 {
    let run = Arc::new(Run::new("C09", tier, COUNTERS));
    // (a) siblings
    let mut bases: Vec<RefPos> = roots().into_iter().map(|r| r.pos).collect();
    let ep = EpFamily { extra: Extra::None, pre_push: false };
    let stride = tier.pick(997u64, 97u64);
    bases.extend((0..ep.size()).step_by(stride as usize).filter_map(|i| ep.get(i)));
    for f in three_man_families() {
        bases.extend((0..f.size()).step_by((stride * 23) as usize).filter_map(|i| f.get(i)));
    }
    // every king on every square at least once (a king key is only exercised by a base that has it)
    for s in 0..64u8 {
        for far in [63u8, 0, 7, 56] {
            let mut p = RefPos::empty();
            p.put(s, Kind::K, Col::W);
            if p.bd[far as usize] == 0 {
                p.put(far, Kind::K, Col::B);
                if p.is_valid() {
                    bases.push(p);
                    bases.push(p.mirror_v());
                    break;
                }
            }
        }
    }
    for f in STATE_RICH_BASES {
        let p = RefPos::from_fen(f).expect("machinery: state-rich base");
        bases.push(p);
        bases.push(p.mirror_v());
    }
    let cf = CastleFamily { extras: 1, opp_rights: true, opp_to_move: false };
    bases.extend((0..cf.size()).step_by(stride as usize).filter_map(|i| cf.get(i)));
    sibling_sweep(&run, &bases);
    run.note("sibling_bases", json!(bases.len()));
    // (b) collision table
    let oracle = Arc::new(C09 { table: ShardMap::new() });
    // (c) two-component variants of a few dense bases
    if !run.has_violation() {
        let rs = roots();
        let dense: Vec<RefPos> = rs.iter().map(|r| r.pos).filter(|p| p.men() >= 12).collect();
        let n2 = tier.pick(11usize, 47usize);
        let mut b2: Vec<RefPos> = vec![RefPos::from_fen("rnbqkbnr/pppppppp/8/8/8/8/PPPPPPPP/RNBQKBNR w KQkq - 0 1").unwrap()];
        // state-rich bases: every castling right present and EVERY file a possible en-passant file for
        // both colours on one placement, so that all pairs (and, with the side flip, triples) of side /
        // rights / en-passant keys meet in one table
        for f in STATE_RICH_BASES {
            let p = RefPos::from_fen(f).expect("machinery: state-rich base");
            b2.push(p);
            b2.push(p.mirror_v());
        }
        b2.extend(dense.iter().step_by((dense.len() / n2).max(1)).take(n2).copied());
        double_variant_sweep(&run, &oracle, &b2);
        run.note("double_variant_bases", json!(b2.iter().map(|p| p.fen()).collect::<Vec<_>>()));
    }
    if !run.has_violation() {
        run_plan(&run, &oracle, &standard_plan(tier, 1));
    }
    run.add("collision_table_hashes", oracle.table.len() as u64);
    run.add("collision_table_positions", run.states.load(Ordering::Relaxed));
    run.assume(A_REF);
    run.assume(A_FP);
    run.assume("a true 64-bit collision among n explored positions has probability about n^2 / 2^65 (n = 10^8: 3e-4); a reported collision names both positions so that it can be adjudicated");
    finish(&run, RULE)
}
pub fn replay(case: &Value) -> i32 {
    match case["kind"].as_str() {
        Some("siblings") => {
            let run = Arc::new(Run::new("C09", Tier::Quick, COUNTERS));
            match RefPos::from_fen(case["base"].as_str().unwrap_or("")) {
                Ok(b) => {
                    sibling_sweep(&run, &[b]);
                    crate::replay_verdict(&run)
                }
                Err(e) => {
                    eprintln!("machinery: {e}");
                    2
                }
            }
        }
        Some("collision") => {
            let run = Arc::new(Run::new("C09", Tier::Quick, COUNTERS));
            let get = |k: &str| RefPos::from_fen(case[k].as_str().unwrap_or("")).ok().and_then(|p| from_scratch(&p).ok());
            match (get("a"), get("b")) {
                (Some(a), Some(b)) => {
                    if observe(&a) != observe(&b) && a.get_hash() == b.get_hash() {
                        run.report(Violation::new("C09", "collision", "", format!("{} and {} share hash {:#018x}", a, b, a.get_hash()), case.clone()));
                    }
                    crate::replay_verdict(&run)
                }
                _ => {
                    eprintln!("machinery: collision replay positions do not build");
                    2
                }
            }
        }
        _ => replay_e1("C09", COUNTERS, C09 { table: ShardMap::new() }, case),
    }
}
