//! C17 — colour and left-right symmetry: mirrored positions behave as mirror images.
//! Differential: the library on a position vs the library on its mirror image (built from scratch).

use super::common::*;
use crate::bridge::*;
use crate::engine::plan::*;
use crate::engine::posgraph::*;
use crate::guard;
use crate::refmodel::*;
use crate::run::{Run, Tier};
use chess::Board;
use serde_json::{json, Value};
use std::sync::atomic::Ordering;

pub const COUNTERS: &[&str] = &["colour_mirror_states", "left_right_mirror_states", "colour_mirror_transitions", "left_right_mirror_transitions", "states_with_castle_rights", "states_with_ep", "pawn_move_transitions"];

pub struct C17;

#[derive(Clone, Copy, PartialEq, Eq, Debug)]
enum Mir {
    V,
    H,
}
impl Mir {
    fn name(self) -> &'static str {
        match self {
            Mir::V => "colour mirror",
            Mir::H => "left-right mirror",
        }
    }
    fn sq(self, s: Sq) -> Sq {
        match self {
            Mir::V => mirror_v_sq(s),
            Mir::H => mirror_h_sq(s),
        }
    }
    fn mv(self, m: RMove) -> RMove {
        RMove::new(self.sq(m.from), self.sq(m.to), m.promo)
    }
    fn pos(self, p: &RefPos) -> RefPos {
        match self {
            Mir::V => p.mirror_v(),
            Mir::H => p.mirror_h(),
        }
    }
    fn obs(self, o: &Obs) -> Obs {
        let mut bd = [0u8; 64];
        for s in 0..64u8 {
            let c = o.bd[s as usize];
            bd[self.sq(s) as usize] = match self {
                Mir::H => c,
                Mir::V => {
                    if c == 0 || c > 12 {
                        c
                    } else if c <= 6 {
                        c + 6
                    } else {
                        c - 6
                    }
                }
            };
        }
        Obs {
            bd,
            stm: if self == Mir::V { o.stm.flip() } else { o.stm },
            castle: if self == Mir::V { ((o.castle & 3) << 2) | ((o.castle >> 2) & 3) } else { o.castle },
            ep: o.ep.map(|s| self.sq(s)),
        }
    }
    fn set(self, v: Vec<Sq>) -> Vec<Sq> {
        let mut v: Vec<Sq> = v.into_iter().map(|s| self.sq(s)).collect();
        v.sort();
        v
    }
}

fn mirrors(p: &RefPos) -> Vec<Mir> {
    if p.castle == 0 {
        vec![Mir::V, Mir::H]
    } else {
        vec![Mir::V]
    }
}
fn build(p: &RefPos, mir: Mir) -> Result<Board, Finding> {
    let pm = mir.pos(p);
    guard::lib(|| from_scratch(&pm)).map_err(|e| Finding::new("panic", "from-scratch panicked", e))?.map_err(|e| Finding::new("mirror-rejected", mir.name(), format!("builder accepts {} but rejects its {} {}: {e}", p.fen(), mir.name(), pm.fen())))
}

impl PosOracle for C17 {
    fn id(&self) -> &'static str {
        "C17"
    }
    fn state(&self, run: &Run, s: &St) -> Judged {
        let p = &s.key;
        let b = s.lib;
        for mir in mirrors(p) {
            let bm = build(p, mir)?;
            let (mut a, mut c) = guard::lib(|| (lib_moves(&b), lib_moves(&bm))).map_err(|e| Finding::new("panic", "move generation panicked", e))?;
            for m in a.iter_mut() {
                *m = mir.mv(*m);
            }
            a.sort();
            c.sort();
            if a != c {
                let only_here: Vec<String> = a.iter().filter(|m| !c.contains(m)).map(|m| mir.mv(*m).uci()).collect();
                let only_there: Vec<String> = c.iter().filter(|m| !a.contains(m)).map(|m| m.uci()).collect();
                return Err(Finding::new("moves", mir.name(), format!("{}: moves only in the original {:?}; only in the mirror image {} {:?}", mir.name(), only_here, mir.pos(p).fen(), only_there)));
            }
            let (s1, s2) = guard::lib(|| (b.status(), bm.status())).map_err(|e| Finding::new("panic", "status panicked", e))?;
            if s1 != s2 {
                return Err(Finding::new("status", mir.name(), format!("status {:?} vs {:?} on the {}", s1, s2, mir.name())));
            }
            if mir.set(bb_squares(*b.checkers())) != bb_squares(*bm.checkers()) {
                return Err(Finding::new("checkers", mir.name(), format!("checkers are not mirror images under the {}", mir.name())));
            }
            if mir.set(bb_squares(*b.pinned())) != bb_squares(*bm.pinned()) {
                return Err(Finding::new("pinned", mir.name(), format!("pinned sets are not mirror images under the {}", mir.name())));
            }
            run.add(if mir == Mir::V { "colour_mirror_states" } else { "left_right_mirror_states" }, 1);
        }
        run.add("states_with_castle_rights", (p.castle != 0) as u64);
        run.add("states_with_ep", (b.en_passant().is_some()) as u64);
        if p.castle != 0 || b.en_passant().is_some() || (0..64u8).any(|q| matches!(p.at(q), Some((Kind::P, _)))) {
            run.nontrivial.fetch_add(1, Ordering::Relaxed);
        }
        let n = run.states.load(Ordering::Relaxed);
        run.sample_nth(n, 300_007, || json!({"kind": "judged state", "fen": p.fen(), "colour_mirror": p.mirror_v().fen()}));
        Ok(())
    }
    fn transition(&self, run: &Run, pre: &St, a: &Act, post: &St) -> Judged {
        let m = match a {
            Act::Mv(m) => *m,
            Act::Null => return Ok(()),
        };
        for mir in mirrors(&pre.key) {
            let bm = build(&pre.key, mir)?;
            let lm = lmove(mir.mv(m));
            let nm = guard::lib(|| bm.make_move_new(lm)).map_err(|e| Finding::new("panic", "make_move_new on the mirror panicked", e))?;
            let want = mir.obs(&observe(&post.lib));
            let got = observe(&nm);
            if want != got {
                return Err(Finding::new("successor", mir.name(), format!("after {} / {}: mirrored successor {} vs successor of the mirror {}", m, mir.mv(m), want.describe(), got.describe())));
            }
            if mir.set(bb_squares(*post.lib.checkers())) != bb_squares(*nm.checkers()) || mir.set(bb_squares(*post.lib.pinned())) != bb_squares(*nm.pinned()) {
                return Err(Finding::new("successor-derived", mir.name(), format!("after {} / {}: checkers or pinned of the successors are not mirror images", m, mir.mv(m))));
            }
            run.add(if mir == Mir::V { "colour_mirror_transitions" } else { "left_right_mirror_transitions" }, 1);
        }
        run.add("pawn_move_transitions", matches!(pre.key.at(m.from), Some((Kind::P, _))) as u64);
        Ok(())
    }
}

pub const RULE: &str = "every state and every transition of the bounded trees, families and children, judged differentially: the colour mirror (swap colours, flip ranks, swap side to move and castling rights, keep the en-passant file) and, for positions without castling rights, the left-right mirror are built from scratch through the builder; legal move sets, status, checkers and pinned sets must be mirror images; for every legal move the successor of the mirror under the mirrored move must equal the mirrored successor in every observable (hash excluded: Zobrist keys are not symmetric). distinct_nontrivial = judged states with pawns, castling rights or en-passant state (where colour- or file-specific code is involved)";

pub fn run(tier: Tier) -> i32 {
    let (run, _) = run_e1("C17", tier, COUNTERS, C17, with_line_geometry(with_ep_slider_positions(standard_plan(tier, 1), tier), true, tier.pick(0, 1)), RULE, &["differential oracle: a defect that is itself mirror-symmetric is invisible here (it is the business of C01-C04)"]);
    finish(&run, RULE)
}
pub fn replay(case: &Value) -> i32 {
    replay_e1("C17", COUNTERS, C17, case)
}
