//! C05 — legal play stays within valid positions; rights and material only shrink.
//! The exploration is *library driven*: the action menu is what the library generates and the
//! state key is the library's own observable position.

use super::common::*;
use crate::bridge::*;
use crate::engine::plan::*;
use crate::engine::posgraph::*;
use crate::guard;
use crate::refmodel::*;
use crate::run::{Run, Tier};
use serde_json::{json, Value};
use std::sync::atomic::Ordering;

pub const COUNTERS: &[&str] = &["states_is_sane", "rights_shrunk", "men_shrunk", "pawns_shrunk_by_promotion", "transitions_monotone"];

pub struct C05;

impl PosOracle for C05 {
    fn id(&self) -> &'static str {
        "C05"
    }
    fn lib_driven(&self) -> bool {
        true
    }
    fn state(&self, run: &Run, s: &St) -> Judged {
        let b = s.lib;
        let o = observe(&b);
        let p = obs_to_pos(&o).ok_or_else(|| Finding::new("observable", "piece_on and color_on disagree", o.describe()))?;
        for c in [Col::W, Col::B] {
            let n = p.kings(c).len();
            if n != 1 {
                return Err(Finding::new("kings", format!("{} kings of one side", n), format!("{:?} has {} kings in {}", c, n, o.describe())));
            }
        }
        if p.king_attacked(p.stm.flip()) {
            return Err(Finding::new("mover-left-in-check", "", format!("the side that just moved is in check in {}", o.describe())));
        }
        for sq in (0..8u8).chain(56..64u8) {
            if matches!(p.at(sq), Some((Kind::P, _))) {
                return Err(Finding::new("pawn-on-back-rank", "", format!("pawn on {} in {}", sq_name(sq), o.describe())));
            }
        }
        let sane = guard::lib(|| b.is_sane()).map_err(|e| Finding::new("panic", "is_sane panicked", e))?;
        if !sane {
            return Err(Finding::new("is-sane", "", format!("is_sane() rejects reachable position {}", o.describe())));
        }
        if let Some(r) = p.invalid_reason() {
            // everything the statement lists was checked above; the remaining clauses of the
            // reference predicate (<=16 men, <=8 pawns, rights backed, ep shape) must hold too
            // because they hold at the roots and are preserved by legal moves
            return Err(Finding::new("invalid", r, format!("reachable position {} is invalid: {}", o.describe(), r)));
        }
        run.add("states_is_sane", 1);
        Ok(())
    }
    fn transition(&self, run: &Run, pre: &St, a: &Act, post: &St) -> Judged {
        if let Act::Null = a {
            return Ok(());
        }
        let (o1, o2) = (observe(&pre.lib), observe(&post.lib));
        if o2.castle & !o1.castle != 0 {
            return Err(Finding::new("rights-grew", "", format!("castling rights grew from {:04b} to {:04b}", o1.castle, o2.castle)));
        }
        let cnt = |o: &Obs, f: &dyn Fn(u8) -> bool| o.bd.iter().filter(|&&c| c != 0 && c <= 12 && f(c)).count();
        for c in [Col::W, Col::B] {
            let is_c = |x: u8| (x - 1) / 6 == c as u8;
            let (m1, m2) = (cnt(&o1, &|x| is_c(x)), cnt(&o2, &|x| is_c(x)));
            let (p1, p2) = (cnt(&o1, &|x| is_c(x) && (x - 1) % 6 == 0), cnt(&o2, &|x| is_c(x) && (x - 1) % 6 == 0));
            if m2 > m1 {
                return Err(Finding::new("men-grew", "", format!("{:?} men grew from {} to {}", c, m1, m2)));
            }
            if p2 > p1 {
                return Err(Finding::new("pawns-grew", "", format!("{:?} pawns grew from {} to {}", c, p1, p2)));
            }
            run.add("men_shrunk", (m2 < m1) as u64);
            run.add("pawns_shrunk_by_promotion", (p2 < p1 && m2 == m1) as u64);
        }
        run.add("rights_shrunk", (o2.castle != o1.castle) as u64);
        run.add("transitions_monotone", 1);
        if o2.castle != o1.castle || o1.bd.iter().filter(|c| **c != 0).count() != o2.bd.iter().filter(|c| **c != 0).count() {
            run.nontrivial.fetch_add(1, Ordering::Relaxed);
        }
        let n = run.transitions.load(Ordering::Relaxed);
        run.sample_nth(n, 400_009, || json!({"kind": "judged transition", "from": pre.key.fen(), "move": a.name(), "to_observable": o2.describe()}));
        Ok(())
    }
}

pub const RULE: &str = "library-driven exploration: actions = the moves the library generates, state key = the library's observable position; bounded trees below the curated roots, families with children, and the reachable closure (fixpoint = every history of any length) of KRK (quick) plus KQK and KPK-with-promotions (thorough). Every state: one king per side, side that just moved not attacked (reference attack test on the observable position), no pawn on rank 1/8, is_sane(), reference validity predicate. Every transition: castling rights only shrink, men and pawns per side never grow. distinct_nontrivial = judged transitions that change rights or material";

pub fn run(tier: Tier) -> i32 {
    let mut plan = standard_plan(tier, 1);
    if tier == Tier::Quick {
        // en-passant positions with one enemy slider anywhere, with every reply applied
        plan.families.push((Box::new(crate::universe::PawnMovesFirst(crate::universe::EpFamily { extra: crate::universe::Extra::EnemySlider, pre_push: false })), 1));
        plan.families.push((Box::new(crate::universe::PawnMovesFirst(crate::universe::EpTwoFamily { extra: crate::universe::Extra::EnemySlider, pre_push: false })), 1));
    }
    plan.closures.push(krk_closure());
    if tier == Tier::Thorough {
        plan.closures.push(kqk_closure());
        plan.closures.push(kpk_closure());
    }
    let (run, _) = run_e1("C05", tier, COUNTERS, C05, plan, RULE, &["exploration follows the library's own move generator, so positions only an over-generating library would reach are judged too"]);
    finish(&run, RULE)
}
pub fn replay(case: &Value) -> i32 {
    replay_e1("C05", COUNTERS, C05, case)
}
