//! C15 — sliding attack lookups equal ray-walking for every square and every occupancy of the
//! rays, in the default (magic) build and in the +bmi2 build (run as a child process of the
//! second binary, which is this same harness compiled with `-C target-feature=+bmi2`).

use crate::bridge::*;
use crate::guard;
use crate::refmodel::*;
use crate::run::{Run, Tier, Violation};
use chess::BitBoard;
use rayon::prelude::*;
use serde_json::{json, Value};
use std::sync::atomic::{AtomicU64, Ordering};
use std::sync::Arc;

pub const COUNTERS: &[&str] = &["rook_lookups", "bishop_lookups", "bmi_lookups", "ray_subsets", "noise_patterns_per_subset", "builds_checked", "ordered_lookup_pairs"];

const ROOK_D: [(i8, i8); 4] = [(1, 0), (0, 1), (-1, 0), (0, -1)];
const BISHOP_D: [(i8, i8); 4] = [(1, 1), (-1, 1), (-1, -1), (1, -1)];

fn rays(s: Sq, dirs: &[(i8, i8); 4]) -> u64 {
    let mut out = 0u64;
    for &(df, dr) in dirs {
        let (mut f, mut r) = (file_of(s) + df, rank_of(s) + dr);
        while on_board(f, r) {
            out |= 1u64 << sq(f, r);
            f += df;
            r += dr;
        }
    }
    out
}
/// The ray squares without the last square of each ray (the occupancy bits a lookup can depend on).
fn inner_mask(s: Sq, dirs: &[(i8, i8); 4]) -> u64 {
    let mut out = 0u64;
    for &(df, dr) in dirs {
        let (mut f, mut r) = (file_of(s) + df, rank_of(s) + dr);
        while on_board(f + df, r + dr) {
            out |= 1u64 << sq(f, r);
            f += df;
            r += dr;
        }
    }
    out
}
/// Walk each ray from the square up to and including the first occupied square.
fn walk(s: Sq, occ: u64, dirs: &[(i8, i8); 4]) -> u64 {
    let mut out = 0u64;
    for &(df, dr) in dirs {
        let (mut f, mut r) = (file_of(s) + df, rank_of(s) + dr);
        while on_board(f, r) {
            let b = 1u64 << sq(f, r);
            out |= b;
            if occ & b != 0 {
                break;
            }
            f += df;
            r += dr;
        }
    }
    out
}

fn crumb(b: &[u8]) -> String {
    let occ = u64::from_le_bytes(b[2..10].try_into().unwrap());
    format!("{} lookup on {} with occupancy {:#018x}", if b[0] == 0 { "rook" } else { "bishop" }, sq_name(b[1]), occ)
}

pub struct Totals {
    pub rook: u64,
    pub bishop: u64,
    pub bmi: u64,
    pub subsets: u64,
    pub noise: u64,
}

/// The whole sweep in the current build.  Reports violations into `run`.
pub fn sweep(run: &Run, tier: Tier) -> Totals {
    let rook = AtomicU64::new(0);
    let bishop = AtomicU64::new(0);
    let bmi = AtomicU64::new(0);
    let subsets = AtomicU64::new(0);
    let noise_n = AtomicU64::new(0);
    let jobs: Vec<(Sq, bool)> = (0..64u8).flat_map(|s| [(s, true), (s, false)]).collect();
    jobs.par_iter().for_each(|&(s, is_rook)| {
        let dirs = if is_rook { &ROOK_D } else { &BISHOP_D };
        let mask = rays(s, dirs);
        let outside = !mask;
        // noise on the squares that cannot matter: none, all, two checkerboards, the slider's own
        // square (alone and with everything), every single non-ray square (thorough: also pairs
        // of adjacent non-ray squares through a sliding 2-bit window)
        let mut noises: Vec<u64> = vec![0, outside, outside & 0xAA55AA55AA55AA55, outside & 0x55AA55AA55AA55AA, 1u64 << s, outside & !(1u64 << s)];
        for q in 0..64u8 {
            if outside & (1u64 << q) != 0 && q != s {
                noises.push(1u64 << q);
            }
        }
        if tier == Tier::Thorough {
            for q in 0..63u8 {
                let w = 3u64 << q;
                if w & outside == w {
                    noises.push(w);
                }
            }
        }
        noise_n.fetch_max(noises.len() as u64, Ordering::Relaxed);
        let mut n = 0u64;
        let mut nb = 0u64;
        let mut sub = 0u64;
        loop {
            let want = walk(s, sub, dirs);
            for &noise in noises.iter() {
                let occ = sub | noise;
                let mut c = [0u8; 10];
                c[0] = !is_rook as u8;
                c[1] = s;
                c[2..10].copy_from_slice(&occ.to_le_bytes());
                guard::crumb_raw(crumb, &c);
                let got = guard::lib(|| if is_rook { chess::get_rook_moves(lsq(s), BitBoard(occ)).0 } else { chess::get_bishop_moves(lsq(s), BitBoard(occ)).0 });
                n += 1;
                if got != Ok(want) {
                    run.report(Violation::new(
                        "C15",
                        if is_rook { "rook-magic" } else { "bishop-magic" },
                        "magic lookup differs from ray walking",
                        format!("{} on {} with occupancy {:#018x}: lookup {:?}, ray walking {:#018x}", if is_rook { "rook" } else { "bishop" }, sq_name(s), occ, got.map(|g| format!("{g:#018x}")), want),
                        json!({"kind": "slider", "piece": if is_rook {"rook"} else {"bishop"}, "square": sq_name(s), "occupancy": format!("{occ:#018x}"), "build": build_name()}),
                    ));
                    return;
                }
                #[cfg(target_feature = "bmi2")]
                {
                    let gb = guard::lib(|| if is_rook { chess::get_rook_moves_bmi(lsq(s), BitBoard(occ)).0 } else { chess::get_bishop_moves_bmi(lsq(s), BitBoard(occ)).0 });
                    nb += 1;
                    if gb != Ok(want) {
                        run.report(Violation::new(
                            "C15",
                            if is_rook { "rook-bmi" } else { "bishop-bmi" },
                            "BMI2 lookup differs from ray walking (and so from the magic lookup)",
                            format!("{} on {} with occupancy {:#018x}: pext/pdep lookup {:?}, ray walking {:#018x}", if is_rook { "rook" } else { "bishop" }, sq_name(s), occ, gb.map(|g| format!("{g:#018x}")), want),
                            json!({"kind": "slider", "piece": if is_rook {"rook"} else {"bishop"}, "square": sq_name(s), "occupancy": format!("{occ:#018x}"), "build": build_name()}),
                        ));
                        return;
                    }
                }
            }
            subsets.fetch_add(1, Ordering::Relaxed);
            // next subset of mask (Carry-Rippler)
            sub = sub.wrapping_sub(mask) & mask;
            if sub == 0 {
                break;
            }
        }
        // call order: the lookups are pure, so an earlier lookup must not change a later one.  For every
        // subset: the lookup repeated; then every neighbour that differs in exactly ONE ray square (inner or
        // edge), asked right after it (a "last lookup" cache keyed by any truncation of the occupancy that
        // drops a square aliases exactly such a pair); then the other slider kind on the same square.
        {
            let look = |rk: bool, occ: u64| -> Result<u64, String> { guard::lib(|| if rk { chess::get_rook_moves(lsq(s), BitBoard(occ)).0 } else { chess::get_bishop_moves(lsq(s), BitBoard(occ)).0 }) };
            #[cfg(target_feature = "bmi2")]
            let look_bmi = |rk: bool, occ: u64| -> Result<u64, String> { guard::lib(|| if rk { chess::get_rook_moves_bmi(lsq(s), BitBoard(occ)).0 } else { chess::get_bishop_moves_bmi(lsq(s), BitBoard(occ)).0 }) };
            let full = mask;
            let other_dirs = if is_rook { &BISHOP_D } else { &ROOK_D };
            let bits: Vec<u64> = (0..64u8).filter(|q| full & (1u64 << q) != 0).map(|q| 1u64 << q).collect();
            let mut sub = 0u64;
            loop {
                let mut seq: Vec<(bool, u64)> = vec![(is_rook, sub), (is_rook, sub)];
                for b in bits.iter() {
                    seq.push((is_rook, sub));
                    seq.push((is_rook, sub ^ b));
                }
                seq.push((!is_rook, sub));
                seq.push((is_rook, sub));
                for (rk, occ) in seq {
                    let want = walk(s, occ, if rk == is_rook { dirs } else { other_dirs });
                    let got = look(rk, occ);
                    n += 1;
                    #[allow(unused_mut)]
                    let mut bad = if got != Ok(want) { Some(("magic", got)) } else { None };
                    #[cfg(target_feature = "bmi2")]
                    {
                        let gb = look_bmi(rk, occ);
                        nb += 1;
                        if bad.is_none() && gb != Ok(want) {
                            bad = Some(("BMI2", gb));
                        }
                    }
                    if let Some((which, g)) = bad {
                        run.report(Violation::new(
                            "C15",
                            if rk { "rook-order" } else { "bishop-order" },
                            "lookup differs from ray walking when asked right after another lookup",
                            format!("{} on {} with occupancy {:#018x} ({which} lookup, asked in a sequence of neighbouring occupancies around {:#018x}): {:?}, ray walking {:#018x}", if rk { "rook" } else { "bishop" }, sq_name(s), occ, sub, g.map(|x| format!("{x:#018x}")), want),
                            json!({"kind": "slider", "piece": if rk {"rook"} else {"bishop"}, "square": sq_name(s), "occupancy": format!("{occ:#018x}"), "build": build_name()}),
                        ));
                        return;
                    }
                }
                sub = sub.wrapping_sub(mask) & mask;
                if sub == 0 {
                    break;
                }
            }
        }
        // pairs of off-ray squares as noise: with every ray subset (thorough) or with the empty,
        // the full and every single-square ray subset (quick)
        let off: Vec<u8> = (0..64u8).filter(|q| outside & (1u64 << q) != 0 && *q != s).collect();
        let ray_sq: Vec<u8> = (0..64u8).filter(|q| mask & (1u64 << q) != 0).collect();
        let mut subs: Vec<u64> = vec![0, mask];
        for q in ray_sq.iter() {
            subs.push(1u64 << q);
            subs.push(mask & !(1u64 << q));
        }
        let check = |occ: u64, want: u64, n: &mut u64, nb: &mut u64| -> bool {
            let mut c = [0u8; 10];
            c[0] = !is_rook as u8;
            c[1] = s;
            c[2..10].copy_from_slice(&occ.to_le_bytes());
            guard::crumb_raw(crumb, &c);
            let got = guard::lib(|| if is_rook { chess::get_rook_moves(lsq(s), BitBoard(occ)).0 } else { chess::get_bishop_moves(lsq(s), BitBoard(occ)).0 });
            *n += 1;
            if got != Ok(want) {
                run.report(Violation::new(
                    "C15",
                    if is_rook { "rook-magic" } else { "bishop-magic" },
                    "magic lookup differs from ray walking (two off-ray squares occupied)",
                    format!("{} on {} with occupancy {:#018x}: lookup {:?}, ray walking {:#018x}", if is_rook { "rook" } else { "bishop" }, sq_name(s), occ, got.map(|g| format!("{g:#018x}")), want),
                    json!({"kind": "slider", "piece": if is_rook {"rook"} else {"bishop"}, "square": sq_name(s), "occupancy": format!("{occ:#018x}"), "build": build_name()}),
                ));
                return false;
            }
            #[cfg(target_feature = "bmi2")]
            {
                let gb = guard::lib(|| if is_rook { chess::get_rook_moves_bmi(lsq(s), BitBoard(occ)).0 } else { chess::get_bishop_moves_bmi(lsq(s), BitBoard(occ)).0 });
                *nb += 1;
                if gb != Ok(want) {
                    run.report(Violation::new(
                        "C15",
                        if is_rook { "rook-bmi" } else { "bishop-bmi" },
                        "BMI2 lookup differs from ray walking (two off-ray squares occupied)",
                        format!("{} on {} with occupancy {:#018x}: pext/pdep lookup {:?}, ray walking {:#018x}", if is_rook { "rook" } else { "bishop" }, sq_name(s), occ, gb.map(|g| format!("{g:#018x}")), want),
                        json!({"kind": "slider", "piece": if is_rook {"rook"} else {"bishop"}, "square": sq_name(s), "occupancy": format!("{occ:#018x}"), "build": build_name()}),
                    ));
                    return false;
                }
            }
            let _ = nb;
            true
        };
        'pairs: for (i, a) in off.iter().enumerate() {
            for b in off.iter().skip(i + 1) {
                let noise = (1u64 << a) | (1u64 << b);
                // with and without the slider's own square
                for own in [0u64, 1u64 << s] {
                    if tier == Tier::Thorough && own == 0 {
                        let mut sub = 0u64;
                        loop {
                            if !check(sub | noise, walk(s, sub, dirs), &mut n, &mut nb) {
                                break 'pairs;
                            }
                            sub = sub.wrapping_sub(mask) & mask;
                            if sub == 0 {
                                break;
                            }
                        }
                    } else {
                        for &sub in subs.iter() {
                            if !check(sub | noise | own, walk(s, sub, dirs), &mut n, &mut nb) {
                                break 'pairs;
                            }
                        }
                    }
                }
            }
        }
        // population ladders over the off-ray squares and every triple of off-ray squares within
        // distance 2 of the slider, each with the reduced ray-subset list
        let mut more: Vec<u64> = vec![];
        for k in 0..=off.len() {
            more.push(off.iter().take(k).fold(0u64, |a, q| a | (1u64 << q)));
            more.push(off.iter().rev().take(k).fold(0u64, |a, q| a | (1u64 << q)));
            more.push((0..k).fold(0u64, |a, i| a | (1u64 << off[(i * 37) % off.len().max(1)])));
        }
        let near: Vec<u8> = off.iter().copied().filter(|q| (file_of(*q) - file_of(s)).abs() <= 2 && (rank_of(*q) - rank_of(s)).abs() <= 2).collect();
        for (i, a) in near.iter().enumerate() {
            for (j, b) in near.iter().enumerate().skip(i + 1) {
                for c in near.iter().skip(j + 1) {
                    more.push((1u64 << a) | (1u64 << b) | (1u64 << c));
                }
            }
        }
        let (mut n2, mut nb2) = (0u64, 0u64);
        'more: for noise in more {
            for &sub in subs.iter() {
                if !check(sub | noise, walk(s, sub, dirs), &mut n2, &mut nb2) {
                    break 'more;
                }
            }
        }
        if is_rook { &rook } else { &bishop }.fetch_add(n + n2, Ordering::Relaxed);
        bmi.fetch_add(nb + nb2, Ordering::Relaxed);
    });
    // call order across squares and pieces: EVERY ordered pair of lookups (piece, square, subset of the inner ray
    // squares) — 107,648 lookups, 1.16 x 10^10 ordered pairs — the second one compared with ray walking.  A memo
    // inside the lookups that is keyed by anything narrower than (piece, square, relevant occupancy) answers wrongly
    // for some such pair, whatever its key.
    if !run.has_violation() {
        let mut all: Vec<(bool, Sq, u64, u64)> = vec![];
        for s in 0..64u8 {
            for is_rook in [true, false] {
                let dirs = if is_rook { &ROOK_D } else { &BISHOP_D };
                let inner = inner_mask(s, dirs);
                let mut sub = 0u64;
                loop {
                    all.push((is_rook, s, sub, walk(s, sub, dirs)));
                    sub = sub.wrapping_sub(inner) & inner;
                    if sub == 0 {
                        break;
                    }
                }
            }
        }
        let n_all = all.len() as u64;
        let pairs_done = AtomicU64::new(0);
        let all_ref = &all;
        (0..all.len()).into_par_iter().for_each(|i| {
            if run.has_violation() || run.over_budget() {
                return;
            }
            let (r1, s1, o1, _) = all_ref[i];
            let call = |rk: bool, sq_: Sq, occ: u64| -> u64 {
                if rk {
                    chess::get_rook_moves(lsq(sq_), BitBoard(occ)).0
                } else {
                    chess::get_bishop_moves(lsq(sq_), BitBoard(occ)).0
                }
            };
            #[cfg(target_feature = "bmi2")]
            let call_bmi = |rk: bool, sq_: Sq, occ: u64| -> u64 {
                if rk {
                    chess::get_rook_moves_bmi(lsq(sq_), BitBoard(occ)).0
                } else {
                    chess::get_bishop_moves_bmi(lsq(sq_), BitBoard(occ)).0
                }
            };
            let res = guard::lib(|| {
                for &(r2, s2, o2, want) in all_ref.iter() {
                    let _ = call(r1, s1, o1);
                    if call(r2, s2, o2) != want {
                        return Some(("magic", r2, s2, o2, want));
                    }
                    #[cfg(target_feature = "bmi2")]
                    {
                        let _ = call_bmi(r1, s1, o1);
                        if call_bmi(r2, s2, o2) != want {
                            return Some(("BMI2", r2, s2, o2, want));
                        }
                    }
                }
                None
            });
            match res {
                Ok(None) => {
                    pairs_done.fetch_add(n_all, Ordering::Relaxed);
                }
                Ok(Some((which, r2, s2, o2, want))) => {
                    run.report(Violation::new(
                        "C15",
                        if r2 { "rook-order" } else { "bishop-order" },
                        "lookup differs from ray walking when asked right after another lookup",
                        format!("{which} lookup: {} on {} with occupancy {:#018x} asked right after {} on {} with occupancy {:#018x} differs from ray walking {:#018x}", if r2 { "rook" } else { "bishop" }, sq_name(s2), o2, if r1 { "rook" } else { "bishop" }, sq_name(s1), o1, want),
                        json!({"kind": "slider-pair", "first": {"piece": if r1 {"rook"} else {"bishop"}, "square": sq_name(s1), "occupancy": format!("{o1:#018x}")}, "piece": if r2 {"rook"} else {"bishop"}, "square": sq_name(s2), "occupancy": format!("{o2:#018x}"), "build": build_name()}),
                    ));
                }
                Err(e) => {
                    run.report(Violation::new("C15", "panic", "a lookup panicked", e, json!({"kind": "slider", "piece": if r1 {"rook"} else {"bishop"}, "square": sq_name(s1), "occupancy": format!("{o1:#018x}"), "build": build_name()})));
                }
            }
        });
        run.add("ordered_lookup_pairs", pairs_done.load(Ordering::Relaxed));
        if run.over_budget() {
            run.cap("wall-clock budget reached during the ordered lookup pairs".to_string());
        }
    }
    Totals { rook: rook.load(Ordering::Relaxed), bishop: bishop.load(Ordering::Relaxed), bmi: bmi.load(Ordering::Relaxed), subsets: subsets.load(Ordering::Relaxed), noise: noise_n.load(Ordering::Relaxed) }
}

pub fn build_name() -> &'static str {
    if cfg!(target_feature = "bmi2") {
        "+bmi2"
    } else {
        "default"
    }
}

pub const RULE: &str = "for each of the 64 squares and each of rook / bishop: EVERY subset of the squares on its rays (edge squares included; 2^14 per rook square, up to 2^13 per bishop square) combined with a catalogue of occupancies of the non-ray squares (none, all, two checkerboards, own square, every single non-ray square; thorough: also adjacent pairs); additionally population ladders over the non-ray squares, every triple of non-ray squares within distance 2 of the slider, and EVERY PAIR of non-ray squares (with and without the slider's own square) combined with the empty, the full, every single-square and every all-but-one ray subset (quick) or with every ray subset (thorough); lookup must equal walking each ray up to and including the first occupied square; call order: for every ray subset the lookup repeated, every occupancy that differs in exactly one ray square asked right after it, and the other slider kind on the same square in between; and EVERY ordered pair of the 107,648 lookups (piece, square, subset of the inner ray squares) back to back on one thread, the second compared with ray walking (1.16 x 10^10 pairs per build). Run in the default build (magic multiplication) and, as a child process, in the +bmi2 build where the pext/pdep variants are judged as well on every input (so bmi == magic == ray walk). distinct_nontrivial = distinct (square, piece, ray subset) cases";

/// Worker mode in the +bmi2 binary: run the sweep, print one JSON line.
pub fn worker(tier: Tier) -> i32 {
    let run = Arc::new(Run::new("C15", tier, COUNTERS));
    let t = sweep(&run, tier);
    let vs: Vec<Value> = run.violations().iter().map(|v| v.to_json()).collect();
    println!("C15-WORKER {}", json!({"build": build_name(), "bmi_compiled": cfg!(target_feature = "bmi2"), "rook": t.rook, "bishop": t.bishop, "bmi": t.bmi, "subsets": t.subsets, "violations": vs}));
    0
}

pub fn run(tier: Tier) -> i32 {
    let run = Arc::new(Run::new("C15", tier, COUNTERS));
    let t = sweep(&run, tier);
    run.add("rook_lookups", t.rook);
    run.add("bishop_lookups", t.bishop);
    run.add("bmi_lookups", t.bmi);
    run.add("ray_subsets", t.subsets);
    run.add("noise_patterns_per_subset", t.noise);
    run.add("builds_checked", 1);
    run.nontrivial.store(t.subsets, Ordering::Relaxed);
    run.evaluations.store(t.rook + t.bishop + t.bmi, Ordering::Relaxed);
    let mut exhaustive = true;
    // second build
    match std::env::var("CV_BMI2_BIN") {
        Ok(bin) if std::path::Path::new(&bin).exists() && std::is_x86_feature_detected!("bmi2") => {
            let out = std::process::Command::new(&bin).arg("C15-bmi2-worker").arg(tier.name()).output();
            match out {
                Ok(o) => {
                    let txt = String::from_utf8_lossy(&o.stdout).to_string();
                    if let Some(line) = txt.lines().find(|l| l.starts_with("C15-WORKER ")) {
                        let v: Value = serde_json::from_str(&line["C15-WORKER ".len()..]).unwrap_or(json!({}));
                        if v["bmi_compiled"] != json!(true) {
                            eprintln!("MACHINERY FAILURE: the bmi2 binary was not compiled with target-feature=+bmi2");
                            return 2;
                        }
                        run.add("rook_lookups", v["rook"].as_u64().unwrap_or(0));
                        run.add("bishop_lookups", v["bishop"].as_u64().unwrap_or(0));
                        run.add("bmi_lookups", v["bmi"].as_u64().unwrap_or(0));
                        run.add("builds_checked", 1);
                        run.evaluations.fetch_add(v["rook"].as_u64().unwrap_or(0) + v["bishop"].as_u64().unwrap_or(0) + v["bmi"].as_u64().unwrap_or(0), Ordering::Relaxed);
                        for x in v["violations"].as_array().cloned().unwrap_or_default() {
                            run.report(Violation {
                                property: "C15".into(),
                                clause: x["clause"].as_str().unwrap_or("").into(),
                                signature: x["signature"].as_str().unwrap_or("").into(),
                                detail: format!("[+bmi2 build] {}", x["detail"].as_str().unwrap_or("")),
                                case: x["case"].clone(),
                            });
                        }
                        run.note("bmi2_build", v);
                    } else if txt.contains("VIOLATION property=C15") {
                        // the child died on a UB check inside the library and reported it itself
                        print!("{txt}");
                        return 1;
                    } else {
                        eprintln!("MACHINERY FAILURE: bmi2 worker produced no result (status {:?})\n{}\n{}", o.status, txt, String::from_utf8_lossy(&o.stderr));
                        return 2;
                    }
                }
                Err(e) => {
                    eprintln!("MACHINERY FAILURE: cannot run the bmi2 binary: {e}");
                    return 2;
                }
            }
        }
        _ => {
            exhaustive = false;
            run.cap("the +bmi2 build was not available (CV_BMI2_BIN unset or CPU without BMI2): only the default configuration was checked".into());
        }
    }
    run.sample(json!({"kind": "lookup", "call": "get_rook_moves(a1, {a4, c1, h8})", "expected_ray_walk": format!("{:#018x}", walk(0, (1 << 24) | (1 << 2) | (1 << 63), &ROOK_D))}));
    run.sample(json!({"kind": "lookup", "call": "get_bishop_moves(d4, {f6, b2, h8})", "expected_ray_walk": format!("{:#018x}", walk(27, (1u64 << 45) | (1 << 9) | (1 << 63), &BISHOP_D))}));
    run.assume("occupancy of squares off the slider's rays is covered by a catalogue, not by all subsets; the claim 'exhaustive' refers to the ray subsets");
    run.finish("exploration", RULE, exhaustive, json!({}))
}

pub fn replay(case: &Value) -> i32 {
    let run = Arc::new(Run::new("C15", Tier::Quick, COUNTERS));
    let s = RMove::parse_uci(&format!("{}a1", case["square"].as_str().unwrap_or("a1"))).map(|m| m.from).unwrap_or(0);
    let occ = u64::from_str_radix(case["occupancy"].as_str().unwrap_or("0x0").trim_start_matches("0x"), 16).unwrap_or(0);
    let is_rook = case["piece"] == json!("rook");
    let dirs = if is_rook { &ROOK_D } else { &BISHOP_D };
    let want = walk(s, occ, dirs);
    if case["first"].is_object() {
        // an ordered pair: make the earlier lookup first
        let f = &case["first"];
        let s1 = RMove::parse_uci(&format!("{}a1", f["square"].as_str().unwrap_or("a1"))).map(|m| m.from).unwrap_or(0);
        let o1 = u64::from_str_radix(f["occupancy"].as_str().unwrap_or("0x0").trim_start_matches("0x"), 16).unwrap_or(0);
        let r1 = f["piece"] == json!("rook");
        let _ = guard::lib(|| if r1 { chess::get_rook_moves(lsq(s1), BitBoard(o1)).0 } else { chess::get_bishop_moves(lsq(s1), BitBoard(o1)).0 });
    }
    let got = guard::lib(|| if is_rook { chess::get_rook_moves(lsq(s), BitBoard(occ)).0 } else { chess::get_bishop_moves(lsq(s), BitBoard(occ)).0 });
    if got != Ok(want) {
        run.report(Violation::new("C15", "magic", "", format!("lookup {:?} vs ray walking {:#018x} (default build; a +bmi2-only discrepancy needs the bmi2 binary)", got, want), case.clone()));
    }
    crate::replay_verdict(&run)
}
