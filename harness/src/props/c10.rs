//! C10 — game protocol: moves accepted iff legal and game open; results final and correct.
//! E2: every action sequence up to a depth, from a set of roots, against the reference automaton.

use super::gamecommon::*;
use crate::guard;
use crate::refmodel::*;
use crate::run::{Run, Tier, Violation};
use chess::Game;
use rayon::prelude::*;
use serde_json::{json, Value};
use std::sync::atomic::Ordering;
use std::sync::Arc;

pub const COUNTERS: &[&str] = &["histories", "operations", "moves_accepted", "illegal_moves_refused", "offers", "accepts_granted", "accepts_refused", "declares_attempted", "resignations", "results_reached", "post_result_operations_refused", "full_move_value_sweeps", "roots", "long_prefix_histories", "one_ply_starts", "long_game_histories", "very_long_game_histories"];

pub const GAME_ROOTS: &[&str] = &[
    "rnbqkbnr/pppppppp/8/8/8/8/PPPPPPPP/RNBQKBNR w KQkq - 0 1",
    "rnbqkbnr/pppp1ppp/8/4p3/6P1/5P2/PPPPP2P/RNBQKBNR b KQkq - 0 1",
    "rnb1kbnr/pppp1ppp/8/4p3/6Pq/5P2/PPPPP2P/RNBQKBNR w KQkq - 0 1",
    "7k/8/6Q1/8/8/8/8/K7 b - - 0 1",
    "7k/5Q2/8/8/8/8/8/K7 w - - 0 1",
    "6k1/5ppp/8/8/8/8/8/R3K3 w Q - 0 1",
    "k7/2K5/8/8/8/8/8/1R6 w - - 0 1",
    "5k2/5P2/5K2/8/8/8/8/8 w - - 0 1",
    "8/8/8/8/8/k7/p1K5/8 b - - 0 1",
    "8/P1k5/K7/8/8/8/8/8 w - - 0 1",
    "8/8/8/8/2pPp3/8/8/k3K3 b - d3 0 1",
    "8/8/8/8/k2Pp2Q/8/8/3K4 b - d3 0 1",
    "4k3/8/8/8/8/5n2/8/r3K3 w - - 0 1",
    "5k2/8/8/8/8/8/8/4K2R w K - 0 1",
    "r3k3/8/8/8/8/8/8/3K4 b q - 0 1",
    "8/8/8/8/8/2k5/1r6/K7 w - - 0 1",
    "4k3/8/8/8/7b/8/3PN3/R3K2R w KQ - 0 1",
    "8/8/8/4k3/8/8/4P3/4K3 w - - 0 1",
];

fn menu(p: &RefPos, prev: Option<&RefPos>) -> Vec<GOp> {
    let legal = crate::engine::posgraph::menu(p);
    let mut v: Vec<GOp> = legal.iter().map(|m| GOp::Move(*m)).collect();
    // structured illegal moves
    let mut bad: Vec<RMove> = p.illegal_pseudo_moves();
    bad.truncate(6);
    for m in legal.iter().filter(|m| matches!(p.at(m.from), Some((Kind::P, _)))).take(2) {
        bad.push(RMove::new(m.from, m.to, if m.promo.is_some() { None } else { Some(Kind::Q) }));
    }
    let mut q = *p;
    q.stm = p.stm.flip();
    q.dp = -1;
    if let Some(m) = q.pseudo_moves().first() {
        bad.push(*m);
    }
    if let Some(e) = (0..64u8).find(|s| p.at(*s).is_none()) {
        bad.push(RMove::new(e, (e + 8) % 64, None));
    }
    if let Some(pp) = prev {
        if let Some(m) = pp.legal_moves().iter().find(|m| !legal.contains(m)) {
            bad.push(*m);
        }
    }
    for m in bad {
        if !legal.contains(&m) {
            v.push(GOp::Move(m));
        }
    }
    v.extend([GOp::Offer(Col::W), GOp::Offer(Col::B), GOp::Accept, GOp::Declare, GOp::Resign(Col::W), GOp::Resign(Col::B)]);
    v
}

struct Ctx<'a> {
    run: &'a Run,
    start: RefPos,
}

fn count(run: &Run, op: &GOp, info: &StepInfo, had_result: bool) {
    run.add("operations", 1);
    if had_result {
        run.add("post_result_operations_refused", (!info.accepted) as u64);
        return;
    }
    match op {
        GOp::Move(_) => run.add(if info.accepted { "moves_accepted" } else { "illegal_moves_refused" }, 1),
        GOp::Offer(_) => run.add("offers", 1),
        GOp::Accept => run.add(if info.accepted { "accepts_granted" } else { "accepts_refused" }, 1),
        GOp::Declare => run.add("declares_attempted", 1),
        GOp::Resign(_) => run.add("resignations", 1),
    }
    if let Some(t) = info.tolerated {
        run.tolerant(t, 1);
    }
}

fn dfs(cx: &Ctx, refg: &RefGame, lib: &Game, ops: &mut Vec<GOp>, depth_left: u32, prev: Option<RefPos>) {
    if cx.run.has_violation() {
        return;
    }
    cx.run.states.fetch_add(1, Ordering::Relaxed);
    cx.run.add("histories", 1);
    let p = refg.position();
    let finished = refg.result().is_some();
    if finished {
        cx.run.add("results_reached", 1);
        cx.run.nontrivial.fetch_add(1, Ordering::Relaxed);
    }
    let m = menu(&p, prev.as_ref());
    // all 20480 move values near the root: everything not legal must be refused and change nothing
    if ops.len() <= 1 && !finished {
        let legal = p.legal_moves();
        for from in 0..64u8 {
            for to in 0..64u8 {
                for promo in [None, Some(Kind::N), Some(Kind::B), Some(Kind::R), Some(Kind::Q)] {
                    let mv = RMove::new(from, to, promo);
                    if legal.binary_search(&mv).is_ok() {
                        continue;
                    }
                    let mut l2 = lib.clone();
                    let lm = crate::bridge::lmove(mv);
                    let r = guard::lib(move || (l2.make_move(lm), l2.actions().len()));
                    if r != Ok((false, refg.log.len())) {
                        ops.push(GOp::Move(mv));
                        cx.run.report(Violation::new("C10", "illegal-move-accepted", "full move-value sweep", format!("make_move({mv}) -> {:?} at {}", r, p.fen()), case_json(&cx.start, ops)));
                        ops.pop();
                        return;
                    }
                }
            }
        }
        cx.run.add("full_move_value_sweeps", 1);
        cx.run.transitions.fetch_add(20480 - legal.len() as u64, Ordering::Relaxed);
    }
    for op in m.iter() {
        let mut r2 = refg.clone();
        let mut l2 = lib.clone();
        ops.push(*op);
        guard::crumb_text(&format!("game from {} ops {:?}", cx.start.fen(), ops.iter().map(|o| o.name()).collect::<Vec<_>>()));
        cx.run.transitions.fetch_add(1, Ordering::Relaxed);
        match step(&mut r2, &mut l2, op) {
            Err(f) => {
                let v = Violation::new("C10", f.clause, &f.shape, format!("{}\n  start {}\n  operations {:?}", f.detail, cx.start.fen(), ops.iter().map(|o| o.name()).collect::<Vec<_>>()), case_json(&cx.start, ops));
                let fatal = cx.run.report(v);
                ops.pop();
                if fatal {
                    return;
                }
                continue;
            }
            Ok(info) => {
                count(cx.run, op, &info, finished);
                if !finished && info.accepted && depth_left > 1 {
                    dfs(cx, &r2, &l2, ops, depth_left - 1, Some(p));
                } else if !finished && info.accepted {
                    // leaf: still judged by step(); count it as a history
                    cx.run.states.fetch_add(1, Ordering::Relaxed);
                    if r2.result().is_some() {
                        cx.run.add("results_reached", 1);
                        // the frozen game: every operation must now be refused
                        for op2 in [GOp::Offer(Col::W), GOp::Accept, GOp::Declare, GOp::Resign(Col::B)].iter().chain(menu(&r2.position(), None).iter().take(2)) {
                            let (mut r3, mut l3) = (r2.clone(), l2.clone());
                            ops.push(*op2);
                            cx.run.transitions.fetch_add(1, Ordering::Relaxed);
                            match step(&mut r3, &mut l3, op2) {
                                Err(f) => {
                                    cx.run.report(Violation::new("C10", f.clause, &f.shape, format!("{}\n  start {}\n  operations {:?}", f.detail, cx.start.fen(), ops.iter().map(|o| o.name()).collect::<Vec<_>>()), case_json(&cx.start, ops)));
                                }
                                Ok(i) => count(cx.run, op2, &i, true),
                            }
                            ops.pop();
                        }
                    }
                }
            }
        }
        ops.pop();
    }
}

/// Depth for a root: largest d with (menu size)^d within the budget.
fn depth_for(p: &RefPos, budget: f64, cap: u32) -> u32 {
    let b = menu(p, None).len().max(2) as f64;
    let mut d = 1;
    while d < cap && b.powi(d as i32 + 1) <= budget {
        d += 1;
    }
    d
}

pub const RULE: &str = "histories = every sequence of operations up to depth d (d chosen per root so that menu^d stays within the budget: 3-4 on dense roots, up to 7 on roots with few moves) from 36 roots (start position, sparse endings, mate-in-one, stalemate-in-one, already mated, already stalemated, en passant, promotion, castling; each also colour-mirrored). Menu at each history: every legal move; a structured illegal set (pseudo-legal-but-illegal moves, wrong promotion field, enemy man, empty square, a move legal one ply earlier); offer_draw(W|B), accept_draw, declare_draw, resign(W|B); at depth <= 1 additionally all 20480 move values. After every operation: return value, result(), current_position(), side_to_move(), actions(), can_declare_draw() against the reference automaton; once a result exists every operation must be refused and change nothing. Additionally, from K+R v K roots quiet prefixes of 99..=102 half-moves (repetition-free C11 fillers, and a plain shuffle cycle that keeps a mate in one available throughout) are followed by every operation sequence of depth 2. One-ply legality sweep: a game from every curated root, every feature-covering root and every member of the en-passant families (one and two capturers), offered every legal and every pseudo-legal-but-illegal move. Long games with deviations: two quiet scripted games of 300 half-moves and 12 eventful opening lines of 22 half-moves (captures, castling, pawn moves) with one non-move operation (offer by either colour, accept, claim, resignation by either colour — after which the rest of the script must be refused) spliced in before EVERY action index (thorough: also pairs at distances 1, 2, 31..33, 63..65, 127..129), observers compared after every operation; three more scripts hold a pawn move or capture followed by a threefold repetition. Very long games: a 1100-ply (thorough 2100) shuffle with one non-move operation before every action index; full lock step around the spliced operation, every 97th operation and at the end, return value of every other operation. states = histories, transitions = operations executed. distinct_nontrivial = histories that end in a result";

pub fn run(tier: Tier) -> i32 {
    let run = Arc::new(Run::new("C10", tier, COUNTERS));
    let mut roots: Vec<RefPos> = vec![];
    for f in GAME_ROOTS {
        let p = RefPos::from_fen(f).expect("machinery: game root");
        roots.push(p);
        if !roots.contains(&p.mirror_v()) {
            roots.push(p.mirror_v());
        }
    }
    run.add("roots", roots.len() as u64);
    let budget = tier.pick(2_000_000.0, 150_000_000.0);
    let cap = tier.pick(6, 8);
    // parallel over (root, first operation)
    let jobs: Vec<(RefPos, u32)> = roots.iter().map(|p| (*p, depth_for(p, budget, cap))).collect();
    run.note("root_depths", json!(jobs.iter().map(|(p, d)| json!({"fen": p.fen(), "depth": d, "menu": menu(p, None).len()})).collect::<Vec<_>>()));
    jobs.par_iter().for_each(|(start, depth)| {
        let refg = RefGame::new(*start);
        let lib = match new_game(start) {
            Ok(g) => g,
            Err(e) => {
                eprintln!("MACHINERY FAILURE: game root {} rejected: {e}", start.fen());
                std::process::exit(2);
            }
        };
        let cx = Ctx { run: &run, start: *start };
        if let Err(f) = observers(&refg, &lib, true) {
            run.report(Violation::new("C10", f.clause, &f.shape, f.detail, case_json(start, &[])));
            return;
        }
        // split the first level across threads
        let first = menu(start, None);
        if refg.result().is_some() {
            let mut ops = vec![];
            dfs(&cx, &refg, &lib, &mut ops, 1, None);
            return;
        }
        // the root history itself (incl. its 20480 sweep) once
        cx.run.states.fetch_add(1, Ordering::Relaxed);
        first.par_iter().for_each(|op| {
            let (mut r2, mut l2) = (refg.clone(), lib.clone());
            let mut ops = vec![*op];
            cx.run.transitions.fetch_add(1, Ordering::Relaxed);
            match step(&mut r2, &mut l2, op) {
                Err(f) => {
                    cx.run.report(Violation::new("C10", f.clause, &f.shape, format!("{}\n  start {}\n  operations {:?}", f.detail, start.fen(), vec![op.name()]), case_json(start, &ops)));
                }
                Ok(info) => {
                    count(cx.run, op, &info, false);
                    if info.accepted && *depth > 1 {
                        dfs(&cx, &r2, &l2, &mut ops, depth - 1, Some(*start));
                    }
                }
            }
        });
    });
    // long prefixes: a quiet, repetition-free history of 99..=101 half-moves (from the C11 filler)
    // followed by EVERY operation sequence of depth 2 — game-ending moves, claims, offers and
    // accepts right at the fifty-move boundary and after a result reached there
    let long_roots: Vec<RefPos> = super::c11::FILLER_ROOTS.iter().skip(4).map(|f| RefPos::from_fen(f).expect("machinery: filler root")).collect();
    // (a) per root the first 99..=101 plies of the self-avoiding C11 filler; (b) a plain four-ply
    // shuffle cycle (rook h1-g1-h1 against king a8-b8-a8) repeated to 99..=102 plies, which keeps a
    // mate in one available for White throughout (repetition is irrelevant here: the point is what a
    // game accepts after a result reached late in a long quiet stretch)
    let mut jobs2: Vec<(RefPos, Vec<GOp>)> = vec![];
    for start in long_roots.iter() {
        if let Some(full) = super::c11::build_history(start, &[], 101) {
            for k in [99usize, 100, 101] {
                jobs2.push((*start, full[..k].to_vec()));
            }
        }
    }
    {
        let start = RefPos::from_fen("k7/8/1K6/8/8/8/8/7R w - - 0 1").expect("machinery: shuffle root");
        let cyc: Vec<RMove> = ["h1g1", "a8b8", "g1h1", "b8a8"].iter().map(|m| RMove::parse_uci(m).unwrap()).collect();
        for (st, mirror) in [(start, false), (start.mirror_v(), true)] {
            for k in [99usize, 100, 101, 102] {
                let h: Vec<GOp> = (0..k).map(|i| GOp::Move(if mirror { mirror_v_move(cyc[i % 4]) } else { cyc[i % 4] })).collect();
                jobs2.push((st, h));
            }
        }
    }
    run.note("long_prefix_lengths", json!(jobs2.iter().map(|(s, h)| json!({"start": s.fen(), "plies": h.len()})).collect::<Vec<_>>()));
    jobs2.par_iter().for_each(|(start, hist)| {
        if run.has_violation() {
            return;
        }
        let mut refg = RefGame::new(*start);
        let mut lib = new_game(start).expect("machinery: long-prefix root");
        let mut ops: Vec<GOp> = vec![];
        for op in hist.iter() {
            ops.push(*op);
            run.transitions.fetch_add(1, Ordering::Relaxed);
            if let Err(f) = step(&mut refg, &mut lib, op) {
                run.report(Violation::new("C10", f.clause, &f.shape, format!("{}
  start {}
  operations ({})", f.detail, start.fen(), ops.len()), case_json(start, &ops)));
                return;
            }
        }
        let cx = Ctx { run: &run, start: *start };
        run.add("long_prefix_histories", 1);
        dfs(&cx, &refg, &lib, &mut ops, 2, None);
    });
    // (c) one-ply legality sweep: a game started from EVERY curated root, every feature-covering root and
    // every member of the two-pawn en-passant families; every legal move and every pseudo-legal-but-illegal
    // move is offered to make_move on a clone (accepted iff legal, observers compared afterwards)
    if !run.has_violation() {
        let mut starts: Vec<RefPos> = crate::universe::roots().into_iter().map(|r| r.pos).collect();
        starts.extend(crate::universe::feature_roots());
        let e1 = crate::universe::EpFamily { extra: crate::universe::Extra::None, pre_push: false };
        let e2 = crate::universe::EpTwoFamily { extra: crate::universe::Extra::None, pre_push: false };
        starts.extend(crate::universe::collect(&e1));
        starts.extend(crate::universe::collect(&e2));
        starts.par_iter().for_each(|start| {
            if run.has_violation() || run.over_budget() {
                return;
            }
            let refg = RefGame::new(*start);
            let lib = match new_game(start) {
                Ok(g) => g,
                Err(e) => {
                    eprintln!("MACHINERY FAILURE: game start {} rejected: {e}", start.fen());
                    std::process::exit(2);
                }
            };
            run.add("one_ply_starts", 1);
            run.states.fetch_add(1, Ordering::Relaxed);
            let mut all: Vec<RMove> = start.legal_moves();
            all.extend(start.illegal_pseudo_moves());
            for m in all {
                let op = GOp::Move(m);
                let (mut r2, mut l2) = (refg.clone(), lib.clone());
                guard::crumb_text(&format!("game from {} op {}", start.fen(), op.name()));
                run.transitions.fetch_add(1, Ordering::Relaxed);
                match step(&mut r2, &mut l2, &op) {
                    Err(f) => {
                        run.report(Violation::new("C10", f.clause, &f.shape, format!("{}\n  start {}\n  operations {:?}", f.detail, start.fen(), vec![op.name()]), case_json(start, &[op])));
                        return;
                    }
                    Ok(info) => count(&run, &op, &info, refg.result().is_some()),
                }
            }
        });
    }
    // (d) long games with one deviation: a quiet scripted game of 300 half-moves (the C11 filler) is the
    // default behaviour; a non-move operation (offer by either colour, accept, claim) is spliced in before
    // EVERY action index (thorough: also every pair of indices i < j with j - i in a stride); the script then
    // continues to its end.  Observers are compared after every operation, so bookkeeping that depends on the
    // LENGTH of the action log (snapshots, parity, counters) is exercised at every length.
    if !run.has_violation() {
        let scripts: Vec<(RefPos, Vec<GOp>)> = [0usize, 3].iter().filter_map(|i| {
            let start = RefPos::from_fen(super::c11::FILLER_ROOTS[*i]).expect("machinery: filler root");
            super::c11::build_history(&start, &[], 300).map(|h| (start, h))
        }).collect();
        // eventful scripts as well: 12 main-line openings (22 plies each, with captures, castling on both
        // wings, pawn moves) from the standard start
        let mut scripts = scripts;
        let startpos = RefPos::from_fen("rnbqkbnr/pppppppp/8/8/8/8/PPPPPPPP/RNBQKBNR w KQkq - 0 1").unwrap();
        for line in crate::universe::OPENING_LINES {
            scripts.push((startpos, line.split_whitespace().map(|m| GOp::Move(RMove::parse_uci(m).expect("machinery: opening move"))).collect()));
        }
        // a history-cutting move (pawn move / capture) followed by a threefold repetition
        for line in ["e2e4 e7e5 g1f3 g8f6 f3g1 f6g8 g1f3 g8f6 f3g1 f6g8 g1f3 g8f6 f3g1 f6g8", "e2e4 d7d5 e4d5 g8f6 g1f3 f6g8 f3g1 g8f6 g1f3 f6g8 f3g1 g8f6 g1f3 f6g8 f3g1", "g1f3 g8f6 f3g1 f6g8 e2e4 e7e5 g1f3 g8f6 f3g1 f6g8 g1f3 g8f6 f3g1 f6g8"] {
            scripts.push((startpos, line.split_whitespace().map(|m| GOp::Move(RMove::parse_uci(m).expect("machinery: script move"))).collect()));
        }
        let devs = [GOp::Offer(Col::W), GOp::Offer(Col::B), GOp::Accept, GOp::Declare, GOp::Resign(Col::W), GOp::Resign(Col::B)];
        let mut jobs3: Vec<(usize, Vec<(usize, GOp)>)> = vec![];
        for (si, (_, h)) in scripts.iter().enumerate() {
            jobs3.push((si, vec![]));
            for i in 0..=h.len() {
                for d in devs {
                    jobs3.push((si, vec![(i, d)]));
                }
            }
            if tier == Tier::Thorough {
                for i in (0..h.len()).step_by(3) {
                    for gap in [1usize, 2, 31, 32, 63, 64, 65, 127, 128, 129] {
                        if i + gap <= h.len() {
                            for d1 in devs {
                                for d2 in devs {
                                    jobs3.push((si, vec![(i, d1), (i + gap, d2)]));
                                }
                            }
                        }
                    }
                }
            }
        }
        jobs3.par_iter().for_each(|(si, dv)| {
            if run.has_violation() || run.over_budget() {
                return;
            }
            let (start, script) = &scripts[*si];
            let mut full: Vec<GOp> = vec![];
            for (i, op) in script.iter().enumerate() {
                for (at, d) in dv.iter() {
                    if *at == i {
                        full.push(*d);
                    }
                }
                full.push(*op);
            }
            for (at, d) in dv.iter() {
                if *at == script.len() {
                    full.push(*d);
                }
            }
            let mut refg = RefGame::new(*start);
            let mut lib = new_game(start).expect("machinery: script root");
            let mut ops: Vec<GOp> = vec![];
            run.add("long_game_histories", 1);
            run.states.fetch_add(1, Ordering::Relaxed);
            for op in full.iter() {
                ops.push(*op);
                guard::crumb_text(&format!("long game from {} deviations {:?} action {}", start.fen(), dv.iter().map(|(i, d)| format!("{}@{}", d.name(), i)).collect::<Vec<_>>(), ops.len()));
                run.transitions.fetch_add(1, Ordering::Relaxed);
                let had = refg.result().is_some();
                match step(&mut refg, &mut lib, op) {
                    Err(f) => {
                        run.report(Violation::new("C10", f.clause, &f.shape, format!("{}\n  start {}\n  long game, deviations {:?}, failing at action {}", f.detail, start.fen(), dv.iter().map(|(i, d)| format!("{} before action {}", d.name(), i)).collect::<Vec<_>>(), ops.len()), case_json(start, &ops)));
                        return;
                    }
                    Ok(info) => count(&run, op, &info, had),
                }
            }
        });
    }
    // (e) very long games: a shuffle of 1100 (thorough 2100) half-moves with one non-move operation before
    // EVERY action index.  Checking every observer after every operation would be quadratic in the length
    // on both sides, so: the full lock step (return value + all observers) runs for the spliced operation, the
    // two operations after it, every 97th operation and the last three; every other operation is applied
    // directly and only its return value is judged (a scripted move is legal, so it must be accepted while
    // the game is open and refused once it has a result).
    if !run.has_violation() {
        let n = tier.pick(1100usize, 2100usize);
        let base = RefPos::from_fen("k7/8/1K6/8/8/8/8/7R w - - 0 1").expect("machinery: shuffle root");
        let cyc: Vec<RMove> = ["h1g1", "a8b8", "g1h1", "b8a8"].iter().map(|m| RMove::parse_uci(m).unwrap()).collect();
        let mut jobs4: Vec<(bool, usize, GOp)> = vec![];
        for mirror in [false, true] {
            for i in 0..=n {
                for d in [GOp::Offer(Col::W), GOp::Offer(Col::B), GOp::Accept, GOp::Declare] {
                    // a claim is granted from the 9th ply on (repetition) and ends the game: early ones, then sparse;
                    // quick tier: the colour-mirrored game only with White's offer, accept only sparsely
                    if d == GOp::Declare && i > 12 && i % 64 != 0 {
                        continue;
                    }
                    if tier == Tier::Quick && ((mirror && d != GOp::Offer(Col::W)) || (d == GOp::Accept && i % 16 != 0)) {
                        continue;
                    }
                    jobs4.push((mirror, i, d));
                }
            }
        }
        jobs4.par_iter().for_each(|(mirror, at, dev)| {
            if run.has_violation() || run.over_budget() {
                return;
            }
            let start = if *mirror { base.mirror_v() } else { base };
            let mut refg = RefGame::new(start);
            let mut lib = new_game(&start).expect("machinery: shuffle root");
            let mut ops: Vec<GOp> = vec![];
            let mut full: Vec<GOp> = Vec::with_capacity(n + 1);
            for i in 0..n {
                if i == *at {
                    full.push(*dev);
                }
                full.push(GOp::Move(if *mirror { mirror_v_move(cyc[i % 4]) } else { cyc[i % 4] }));
            }
            if *at == n {
                full.push(*dev);
            }
            run.add("very_long_game_histories", 1);
            run.states.fetch_add(1, Ordering::Relaxed);
            let mut finished = false;
            let total = full.len();
            for (k, op) in full.iter().enumerate() {
                ops.push(*op);
                run.transitions.fetch_add(1, Ordering::Relaxed);
                let near = k + 1 >= *at && k <= *at + 2;
                if near || k % 97 == 0 || k + 3 >= total {
                    guard::crumb_text(&format!("very long game from {} deviation {}@{} action {}", start.fen(), dev.name(), at, k));
                    match step(&mut refg, &mut lib, op) {
                        Err(f) => {
                            run.report(Violation::new("C10", f.clause, &f.shape, format!("{}\n  start {}\n  very long game, {} before action {}, failing at action {}", f.detail, start.fen(), dev.name(), at, k), case_json(&start, &ops)));
                            return;
                        }
                        Ok(_) => finished = refg.result().is_some(),
                    }
                } else {
                    let mut l2 = std::mem::replace(&mut lib, Game::new());
                    let op2 = *op;
                    let r = guard::lib(move || {
                        let ret = match op2 {
                            GOp::Move(m) => l2.make_move(crate::bridge::lmove(m)),
                            _ => false,
                        };
                        (ret, l2)
                    });
                    match r {
                        Ok((ret, l3)) => {
                            lib = l3;
                            if ret == finished {
                                run.report(Violation::new("C10", if ret { "post-result-accepted" } else { "legal-move-refused" }, "very long game", format!("make_move({}) returned {} at action {} of a very long game ({} before action {}); the game is {}\n  start {}", op.name(), ret, k, dev.name(), at, if finished { "finished" } else { "open and the move is legal" }, start.fen()), case_json(&start, &ops)));
                                return;
                            }
                            if ret {
                                refg.log.push(op.action());
                            }
                        }
                        Err(e) => {
                            run.report(Violation::new("C10", "panic", "make_move panicked", format!("make_move({}) panicked at action {} of a very long game: {e}", op.name(), k), case_json(&start, &ops)));
                            return;
                        }
                    }
                }
            }
        });
    }
    run.sample(json!({"kind": "history", "start": GAME_ROOTS[1], "ops": ["offer_draw(B)", "d8h4", "accept_draw"], "expect": "accept refused: the move mated, the game has a result"}));
    run.sample(json!({"kind": "history", "start": GAME_ROOTS[0], "ops": ["offer_draw(W)", "e2e4", "accept_draw", "resign(B)"], "expect": "accept granted (mover offered just before the move); resign refused afterwards"}));
    run.assume("offer_draw / resign in an open game and accept_draw with a pending offer may return either value (the statement fixes only refusals); whatever is returned must be reflected consistently by actions(), result() and the other observers");
    run.finish("model_checking", RULE, true, json!({}))
}

pub fn replay(case: &Value) -> i32 {
    let run = Arc::new(Run::new("C10", Tier::Quick, COUNTERS));
    match replay_ops(case) {
        Ok(None) => {}
        Ok(Some((f, ops))) => {
            run.report(Violation::new("C10", f.clause, &f.shape, format!("{} after {:?}", f.detail, ops.iter().map(|o| o.name()).collect::<Vec<_>>()), case.clone()));
        }
        Err(e) => {
            eprintln!("machinery: {e}");
            return 2;
        }
    }
    crate::replay_verdict(&run)
}
