//! C01 — legal move generation is exact.

use crate::bridge::*;
use crate::engine::plan::*;
use crate::engine::posgraph::*;
use crate::guard;
use crate::refmodel::*;
use crate::run::{Run, Tier};
use chess::{Board, ChessMove, MoveGen};
use serde_json::{json, Value};
use std::sync::atomic::Ordering;
use std::sync::Arc;

pub const COUNTERS: &[&str] = &[
    "legal_moves_compared",
    "castles_legal",
    "castles_denied_with_right",
    "ep_legal",
    "ep_denied_pseudo",
    "promotions",
    "states_in_check",
    "states_in_double_check",
    "states_with_pin",
    "pinned_piece_illegal_moves",
    "legality_queries",
    "full_triple_sweeps",
    "mates_or_stalemates",
];

pub struct C01 {
    /// run the complete 64x64x5 legality sweep on every state judged by this instance
    pub full_triple: bool,
}

fn class(p: &RefPos, m: RMove) -> &'static str {
    if p.is_castle(m) {
        "castle"
    } else if p.is_ep(m) {
        "en passant"
    } else if m.promo.is_some() {
        "promotion"
    } else if matches!(p.at(m.from), Some((Kind::K, _))) {
        "king move"
    } else if p.is_capture(m) {
        "capture"
    } else {
        "quiet"
    }
}
fn situation(p: &RefPos) -> &'static str {
    match p.checkers().len() {
        0 => "not in check",
        1 => "in check",
        _ => "in double check",
    }
}

impl PosOracle for C01 {
    fn id(&self) -> &'static str {
        "C01"
    }
    fn state(&self, run: &Run, s: &St) -> Judged {
        let p = &s.key;
        let b: Board = s.lib;
        let reference = p.legal_moves(); // sorted
        let yielded = guard::lib(|| lib_moves(&b)).map_err(|e| Finding::new("panic", "move generation panicked", e))?;
        let mut sorted = yielded.clone();
        sorted.sort();
        for w in sorted.windows(2) {
            if w[0] == w[1] {
                return Err(Finding::new("duplicate-move", format!("{} yielded twice", class(p, w[0])), format!("move {} yielded twice; yield order {:?}", w[0], names(&yielded))));
            }
        }
        for m in reference.iter() {
            if !sorted.contains(m) {
                return Err(Finding::new("missing-move", format!("{} {}", class(p, *m), situation(p)), format!("legal move {} not generated; generated {:?}; reference {:?}", m, names(&sorted), names(&reference))));
            }
        }
        for m in sorted.iter() {
            if !reference.contains(m) {
                return Err(Finding::new("extra-move", format!("{} {}", class_loose(p, *m), situation(p)), format!("generated move {} is not legal; generated {:?}; reference {:?}", m, names(&sorted), names(&reference))));
            }
        }
        let len = guard::lib(|| MoveGen::new_legal(&b).len()).map_err(|e| Finding::new("panic", "len panicked", e))?;
        if len != reference.len() {
            return Err(Finding::new("fresh-len", "len() of a fresh generator differs from the number of legal moves", format!("len()={} but {} legal moves", len, reference.len())));
        }
        #[allow(deprecated)]
        let en = guard::lib(|| {
            let mut arr = [ChessMove::default(); 256];
            let n = b.enumerate_moves(&mut arr);
            arr[..n].iter().map(|m| rmove(*m)).collect::<Vec<_>>()
        })
        .map_err(|e| Finding::new("panic", "enumerate_moves panicked", e))?;
        if en != yielded {
            return Err(Finding::new("enumerate-moves", "Board::enumerate_moves differs from the generator", format!("enumerate_moves {:?} vs generator {:?}", names(&en), names(&yielded))));
        }
        // legal_quick on generated moves; Board::legal on legal, pseudo-but-illegal and wrong-promotion moves
        let illegal = p.illegal_pseudo_moves();
        let mut queries = 0u64;
        for m in reference.iter() {
            let lm = lmove(*m);
            let (q, l) = guard::lib(|| (MoveGen::legal_quick(&b, lm), b.legal(lm))).map_err(|e| Finding::new("panic", "legality query panicked", e))?;
            queries += 2;
            if !q {
                return Err(Finding::new("legal-quick", format!("{} {}", class(p, *m), situation(p)), format!("legal_quick says false for generated legal move {}", m)));
            }
            if !l {
                return Err(Finding::new("legal-false", format!("{} {}", class(p, *m), situation(p)), format!("Board::legal says false for legal move {}", m)));
            }
            // wrong promotion field
            let variants: Vec<Option<Kind>> = if m.promo.is_some() { vec![None] } else if matches!(p.at(m.from), Some((Kind::P, _))) { PROMOS.iter().map(|k| Some(*k)).collect() } else { vec![Some(Kind::Q)] };
            for v in variants {
                let wm = RMove::new(m.from, m.to, v);
                let lw = lmove(wm);
                let l = guard::lib(|| b.legal(lw)).map_err(|e| Finding::new("panic", "legality query panicked", e))?;
                queries += 1;
                if l {
                    return Err(Finding::new("legal-true", "wrong promotion field accepted", format!("Board::legal says true for {} (promotion field does not fit the move)", wm)));
                }
            }
        }
        for m in illegal.iter() {
            let lm = lmove(*m);
            let l = guard::lib(|| b.legal(lm)).map_err(|e| Finding::new("panic", "legality query panicked", e))?;
            queries += 1;
            if l {
                return Err(Finding::new("legal-true", format!("{} {}", class_loose(p, *m), situation(p)), format!("Board::legal says true for pseudo-legal but illegal move {}", m)));
            }
        }
        let n = run.states.load(Ordering::Relaxed);
        if self.full_triple {
            for from in 0..64u8 {
                for to in 0..64u8 {
                    for promo in [None, Some(Kind::N), Some(Kind::B), Some(Kind::R), Some(Kind::Q)] {
                        let m = RMove::new(from, to, promo);
                        let lm = lmove(m);
                        let l = guard::lib(|| b.legal(lm)).map_err(|e| Finding::new("panic", "legality query panicked", e))?;
                        if l != reference.binary_search(&m).is_ok() {
                            return Err(Finding::new(if l { "legal-true" } else { "legal-false" }, "full triple sweep", format!("Board::legal({}) = {} but reference says {}", m, l, !l)));
                        }
                    }
                }
            }
            queries += 20480;
            run.add("full_triple_sweeps", 1);
        }
        // non-vacuity counters
        run.add("legality_queries", queries);
        run.add("legal_moves_compared", reference.len() as u64);
        let chk = p.checkers().len();
        let pins = p.pinned(p.stm);
        let ncastle = reference.iter().filter(|m| p.is_castle(**m)).count() as u64;
        let rights = (p.has_k(p.stm) as u64) + (p.has_q(p.stm) as u64);
        let nep = reference.iter().filter(|m| p.is_ep(**m)).count() as u64;
        let nep_denied = illegal.iter().filter(|m| p.is_ep(**m)).count() as u64;
        let npromo = reference.iter().filter(|m| m.promo.is_some()).count() as u64;
        run.add("castles_legal", ncastle);
        run.add("castles_denied_with_right", rights - ncastle);
        run.add("ep_legal", nep);
        run.add("ep_denied_pseudo", nep_denied);
        run.add("promotions", npromo);
        run.add("states_in_check", (chk == 1) as u64);
        run.add("states_in_double_check", (chk >= 2) as u64);
        run.add("states_with_pin", (!pins.is_empty()) as u64);
        run.add("pinned_piece_illegal_moves", illegal.iter().filter(|m| pins.contains(&m.from)).count() as u64);
        run.add("mates_or_stalemates", reference.is_empty() as u64);
        if chk > 0 || !pins.is_empty() || rights > 0 || p.ep_adjacent() || npromo > 0 {
            run.nontrivial.fetch_add(1, Ordering::Relaxed);
        }
        run.sample_nth(n, 200_003, || json!({"kind": "judged state", "fen": p.fen(), "legal_moves": names(&reference), "path_from_root": path_vec(&s.path).iter().map(|a| a.name()).collect::<Vec<_>>()}));
        Ok(())
    }
}
fn class_loose(p: &RefPos, m: RMove) -> &'static str {
    if p.at(m.from).is_none() {
        "move from empty square"
    } else {
        class(p, m)
    }
}
pub fn names(v: &[RMove]) -> Vec<String> {
    v.iter().map(|m| m.uci()).collect()
}

pub const RULE: &str = "states = positions of the bounded trees below the curated roots (depth in key, deduplicated by stateright), every member of the complete small-material / en-passant / castling / promotion families and their children; each judged once: generator yield vs reference legal set (missing / extra / duplicate), fresh len(), enumerate_moves, legal_quick on every generated move, Board::legal on every legal move, every pseudo-legal-but-illegal move and every wrong-promotion variant, plus the complete 64x64x5 sweep on shallow states and every 64th family member. distinct_nontrivial = judged states in which the mover is in check, has a pinned man, holds a castling right, stands beside a just-double-pushed pawn or can promote";

pub fn run(tier: Tier) -> i32 {
    let run = Arc::new(Run::new("C01", tier, COUNTERS));
    let oracle = Arc::new(C01 { full_triple: false });
    let mut plan = standard_plan(tier, 4);
    if tier == Tier::Quick {
        // every en-passant position with one enemy slider anywhere (pins of the capturer along rank,
        // file and diagonals, discovered checks through the push), judged without children
        plan.families.push((Box::new(crate::universe::EpFamily { extra: crate::universe::Extra::EnemySlider, pre_push: false }), 0));
        // ... and with a capturer on both sides of the pushed pawn (one of them pinned, the other not)
        plan.families.push((Box::new(crate::universe::EpTwoFamily { extra: crate::universe::Extra::EnemySlider, pre_push: false }), 0));
    }
    let mut plan = with_line_geometry_for(plan, true, 0, true);
    plan.families.push((Box::new(crate::universe::ep_two_sliders_family(tier == Tier::Quick)), 0));
    run_plan(&run, &oracle, &plan);
    // complete 64x64x5 legality sweep: every root, the children of every 4th root (thorough: everything
    // within 2 plies of every root), plus every 64th (quick: 2048th) member of the en-passant / castling / promotion families
    if !run.has_violation() {
        let full = Arc::new(C01 { full_triple: true });
        let rs: Vec<RefPos> = crate::universe::roots().into_iter().map(|r| r.pos).collect();
        let before = run.get("full_triple_sweeps");
        match tier {
            Tier::Quick => {
                // every root, and the children of every 4th root
                sweep_family(&run, &full, rs.len() as u64, |i| Some(rs[i as usize]), 0);
                let some: Vec<RefPos> = rs.iter().step_by(4).flat_map(|p| p.legal_moves().into_iter().map(move |m| p.apply(m))).collect();
                sweep_family(&run, &full, some.len() as u64, |i| Some(some[i as usize]), 0);
            }
            Tier::Thorough => {
                sweep_family(&run, &full, rs.len() as u64, |i| Some(rs[i as usize]), 2);
            }
        }
        let stride = tier.pick(2048u64, 64u64);
        for f in [
            Box::new(crate::universe::EpFamily { extra: crate::universe::Extra::EnemySlider, pre_push: false }) as Box<dyn crate::universe::Family>,
            Box::new(crate::universe::CastleFamily { extras: 1, opp_rights: false, opp_to_move: false }),
            Box::new(crate::universe::PromoFamily::full()),
        ] {
            let n = f.size() / stride;
            sweep_family(&run, &full, n, |i| f.get(i * stride), 0);
        }
        run.note("full_triple_sweep", json!({"states": run.get("full_triple_sweeps") - before, "what": "all 20480 (source, destination, promotion) values judged against the reference legal set", "family_stride": stride}));
    }
    run.assume("the reference move generator (validated against published perft values at start-up) is the oracle for FIDE legality");
    run.assume("stateright deduplicates by a 64-bit fingerprint of (reference position, depth, null count); a fingerprint collision would silently skip a state");
    run.finish("model_checking", RULE, true, json!({}))
}

pub fn replay(case: &Value) -> i32 {
    let run = Arc::new(Run::new("C01", Tier::Quick, COUNTERS));
    let oracle = C01 { full_triple: true };
    match replay_path(&oracle, &run, case) {
        Ok(()) => crate::replay_verdict(&run),
        Err(e) => {
            eprintln!("machinery: {e}");
            2
        }
    }
}
