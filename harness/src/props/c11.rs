//! C11 — draw claims exactly on threefold repetition or the fifty-move rule.
//! Regime A: every sequence over small move menus (repetition patterns) to a depth.
//! Regime B: deviation-bounded long histories around the 99/100/101 half-move boundary.

use super::gamecommon::*;
use crate::guard;
use crate::refmodel::*;
use crate::run::{Run, Tier, Violation};
use chess::Game;
use rayon::prelude::*;
use serde_json::{json, Value};
use std::collections::BTreeSet;
use std::sync::atomic::Ordering;
use std::sync::Arc;

pub const COUNTERS: &[&str] = &[
    "walk_histories",
    "menu_histories", "menu_operations", "menu_claimable_states", "menu_claims_executed", "menu_illegal_menu_moves_refused",
    "filler_histories", "filler_plies", "filler_boundary_claims_executed", "filler_claimable_plies", "filler_deviations_pawn", "filler_deviations_capture",
    "filler_deviations_rook_loses_right", "filler_deviations_king_loses_rights", "filler_deviations_castle", "filler_deviations_offer", "filler_deviations_pawn_capture", "filler_deviations_promotion", "filler_deviations_double_push_then_onto_skipped", "filler_long_histories", "filler_terminal_moves_tried", "filler_event_slots_unavailable", "t3_tolerated",
];

struct MenuRoot {
    fen: &'static str,
    menu: &'static [&'static str],
    what: &'static str,
}
const MENU_ROOTS: &[MenuRoot] = &[
    MenuRoot { fen: "rnbqkbnr/pppppppp/8/8/8/8/PPPPPPPP/RNBQKBNR w KQkq - 0 1", menu: &["g1f3", "f3g1", "g8f6", "f6g8", "b1c3", "c3b1", "b8c6", "c6b8", "e2e4"], what: "knight shuffles from the start position, a pawn move that cuts the history" },
    MenuRoot { fen: "r3k2r/8/8/8/8/8/8/R3K2R w KQkq - 0 1", menu: &["a1a2", "a2a1", "a8a7", "a7a8", "h1h2", "h2h1", "e1e2", "e2e1"], what: "rooks and king leave and re-enter home squares: equal placement with different castling rights" },
    MenuRoot { fen: "4k3/8/8/8/4p3/8/3P4/4K3 w - - 0 1", menu: &["d2d4", "e8d8", "d8e8", "e1d1", "d1e1", "e4d3", "d2d3"], what: "double push with a capturable en-passant right on the first occurrence only" },
    MenuRoot { fen: "4k3/8/8/8/4p3/8/3P4/4R1K1 w - - 0 1", menu: &["d2d4", "e8d8", "d8e8", "g1h1", "h1g1", "e8f8", "f8e8"], what: "double push beside a pawn that is pinned on the file: en-passant possibility is readable two ways (T3)" },
    MenuRoot { fen: "8/8/8/4k3/8/8/8/4K2R w K - 0 1", menu: &["e1d1", "d1d2", "d2e1", "e1d2", "d2d1", "d1e1", "e5e6", "e6e5", "h1h2", "h2h1"], what: "king triangulation: equal placement with the other side to move; a right lost midway" },
    MenuRoot { fen: "r3k3/8/8/8/8/8/8/R3K3 b Qq - 0 1", menu: &["a8b8", "b8a8", "a1b1", "b1a1", "e8d8", "d8e8", "b8b1", "a8a1"], what: "black to move first; captures that cut the history" },
    MenuRoot { fen: "6k1/8/8/8/8/8/1q6/6K1 b - - 0 1", menu: &["b2b1", "b1b2", "g1g2", "g2g1", "g1h2", "h2g1", "g8g7", "g7g8"], what: "repetition through checks (queen checks on the first rank)" },
    MenuRoot { fen: "rnbqkbnr/pppppppp/8/8/8/8/PPPPPPPP/RNBQKBNR b KQkq - 0 1", menu: &["g8f6", "f6g8", "g1f3", "f3g1", "h7h5", "h8h7", "h7h8"], what: "black starts; a rook shuffle that silently drops a right after a pawn move" },
    MenuRoot { fen: "4k3/8/8/7R/8/8/8/4K2R w K - 0 1", menu: &["h5g5", "g5h5", "e8d8", "d8e8", "h1g1", "g1h1", "h5h2", "h2h5"], what: "a SECOND rook on the file of a home rook that still holds its right: its moves change no right" },
    MenuRoot { fen: "r3k3/8/8/r7/8/8/8/4K3 b q - 0 1", menu: &["a5b5", "b5a5", "e1d1", "d1e1", "a8b8", "b8a8", "a5a7", "a7a5"], what: "the same for Black on the a-file, Black to move first" },
];

fn report(run: &Run, f: Fail, start: &RefPos, ops: &[GOp]) -> bool {
    let detail = format!("{}\n  start {}\n  operations ({}) {:?}", f.detail, start.fen(), ops.len(), ops.iter().map(|o| o.name()).collect::<Vec<_>>());
    run.report(Violation::new("C11", f.clause, &f.shape, detail, case_json(start, ops)))
}

fn menu_dfs(run: &Run, start: &RefPos, menu: &[GOp], refg: &RefGame, lib: &Game, ops: &mut Vec<GOp>, depth_left: u32, offers: u32) {
    if run.has_violation() {
        return;
    }
    run.states.fetch_add(1, Ordering::Relaxed);
    run.add("menu_histories", 1);
    let claim = refg.claimable();
    if claim == Tri::Yes {
        run.add("menu_claimable_states", 1);
        run.nontrivial.fetch_add(1, Ordering::Relaxed);
    }
    if claim == Tri::Either {
        run.add("t3_tolerated", 1);
    }
    if depth_left == 0 || refg.result().is_some() {
        return;
    }
    let mut todo: Vec<GOp> = menu.to_vec();
    todo.push(GOp::Declare);
    if offers < 1 && !matches!(ops.last(), Some(GOp::Offer(_))) {
        todo.push(GOp::Offer(Col::W));
    }
    for op in todo {
        let (mut r2, mut l2) = (refg.clone(), lib.clone());
        ops.push(op);
        run.transitions.fetch_add(1, Ordering::Relaxed);
        run.add("menu_operations", 1);
        match step(&mut r2, &mut l2, &op) {
            Err(f) => {
                let fatal = report(run, f, start, ops);
                ops.pop();
                if fatal {
                    return;
                }
                continue;
            }
            Ok(info) => {
                if let Some(t) = info.tolerated {
                    run.tolerant(t, 1);
                }
                match op {
                    GOp::Declare => {
                        run.add("menu_claims_executed", 1);
                        if info.accepted {
                            // frozen afterwards: one more claim and one move must be refused
                            for op2 in [GOp::Declare, menu[0]] {
                                let (mut r3, mut l3) = (r2.clone(), l2.clone());
                                ops.push(op2);
                                if let Err(f) = step(&mut r3, &mut l3, &op2) {
                                    report(run, f, start, ops);
                                }
                                ops.pop();
                            }
                        }
                    }
                    GOp::Move(_) if !info.accepted => run.add("menu_illegal_menu_moves_refused", 1),
                    _ => {}
                }
                if info.accepted && !matches!(op, GOp::Declare) {
                    menu_dfs(run, start, menu, &r2, &l2, ops, depth_left - 1, offers + matches!(op, GOp::Offer(_)) as u32);
                }
            }
        }
        ops.pop();
    }
}

// ------------------------------------------------------------------------------------------
// Regime B

/// Moves that keep the fifty-move counter running and the castling rights intact.
fn filler_moves(p: &RefPos) -> Vec<RMove> {
    let mut v: Vec<RMove> = p.legal_moves().into_iter().filter(|m| !matches!(p.at(m.from), Some((Kind::P, _))) && !p.is_capture(*m) && p.apply(*m).castle == p.castle).collect();
    // knights first (they never touch rights), then the rest, each in sorted order
    v.sort_by_key(|m| (!matches!(p.at(m.from), Some((Kind::N, _))), *m));
    v
}
/// Depth-first, first-in-sorted-order, self-avoiding filler of `len` plies.
fn filler(p: &RefPos, len: usize, seen: &mut BTreeSet<RefPos>, out: &mut Vec<RMove>, nodes: &mut u64) -> bool {
    if out.len() >= len {
        return true;
    }
    *nodes += 1;
    if *nodes > 200_000 {
        return false;
    }
    for m in filler_moves(p) {
        let n = p.apply(m);
        let mut key = n;
        key.dp = -1;
        if n.legal_moves().is_empty() || seen.contains(&key) {
            continue;
        }
        seen.insert(key);
        out.push(m);
        if filler(&n, len, seen, out, nodes) {
            return true;
        }
        out.pop();
        seen.remove(&key);
    }
    false
}

#[derive(Clone, Copy, PartialEq, Eq, Debug)]
pub enum Event {
    PawnMove,
    Capture,
    RookLosesRight,
    KingLosesRights,
    Castle,
    /// a non-move action in the log: an (unaccepted) draw offer; position and clock unchanged
    Offer,
    /// a capture made by a pawn (incl. en passant when available)
    PawnCapture,
    /// a promotion (push or capture)
    Promotion,
    /// a double pawn push that lands beside an enemy pawn (creates an en-passant right)
    DoublePush,
    /// directly after such a push: a quiet NON-pawn move onto the square the pawn skipped
    OntoSkipped,
}
const EVENTS: [Event; 8] = [Event::PawnMove, Event::Capture, Event::RookLosesRight, Event::KingLosesRights, Event::Castle, Event::Offer, Event::PawnCapture, Event::Promotion];

fn event_move(p: &RefPos, e: Event) -> Option<RMove> {
    let ms = p.legal_moves();
    ms.into_iter().find(|m| {
        let k = p.at(m.from).map(|x| x.0);
        let rights_change = p.apply(*m).castle != p.castle;
        match e {
            Event::PawnMove => k == Some(Kind::P) && !p.is_capture(*m) && m.promo.is_none(),
            Event::PawnCapture => k == Some(Kind::P) && p.is_capture(*m) && m.promo.is_none(),
            Event::Promotion => m.promo.is_some(),
            Event::Capture => p.is_capture(*m) && k != Some(Kind::P),
            Event::RookLosesRight => k == Some(Kind::R) && rights_change && !p.is_capture(*m),
            Event::KingLosesRights => k == Some(Kind::K) && rights_change && !p.is_castle(*m) && !p.is_capture(*m),
            Event::Castle => p.is_castle(*m),
            Event::Offer => false,
            Event::DoublePush => p.is_double_push(*m) && p.apply(*m).ep_adjacent(),
            Event::OntoSkipped => p.dp >= 0 && k != Some(Kind::P) && !p.is_capture(*m) && file_of(m.to) == p.dp && rank_of(m.to) == p.stm.flip().dp_rank() - p.stm.flip().dir(),
        }
    })
}

/// Build one history: filler with the given (ply, event) deviations spliced in; total length
/// long enough to pass 100 on the clock after the last reset.
pub fn build_history(start: &RefPos, devs: &[(usize, Event)], horizon: usize) -> Option<Vec<GOp>> {
    let mut p = *start;
    let mut seen: BTreeSet<RefPos> = BTreeSet::new();
    let mut k0 = p;
    k0.dp = -1;
    seen.insert(k0);
    let mut hist: Vec<GOp> = vec![];
    let mut plies = 0usize;
    let mut di = 0;
    while plies < horizon {
        let next_dev = devs.get(di).map(|d| d.0).unwrap_or(usize::MAX);
        if plies == next_dev {
            if devs[di].1 == Event::Offer {
                hist.push(GOp::Offer(if di % 2 == 0 { Col::W } else { Col::B }));
                di += 1;
                continue;
            }
            let m = event_move(&p, devs[di].1)?;
            p = p.apply(m);
            hist.push(GOp::Move(m));
            plies += 1;
            let mut k = p;
            k.dp = -1;
            seen.insert(k);
            di += 1;
            continue;
        }
        let want = next_dev.min(horizon) - plies;
        let mut seg = vec![];
        let mut nodes = 0;
        if !filler(&p, want, &mut seen, &mut seg, &mut nodes) {
            return None;
        }
        for m in seg {
            p = p.apply(m);
            hist.push(GOp::Move(m));
            plies += 1;
        }
    }
    Some(hist)
}

pub const SKIP_ROOTS: &[&str] = &["4k3/3p4/8/2n1P3/2N1p3/8/3P4/4K3 w - - 0 1", "7k/3p4/8/2n1P3/2N1p3/8/3P4/7K w - - 0 1"];

pub const FILLER_ROOTS: &[&str] = &[
    "r1n1k2r/p2p4/8/8/8/8/P2P4/R1N1K2R w KQkq - 0 1",
    "1n2k3/8/8/8/8/8/8/RN2K3 w Q - 0 1",
    "r3k1nr/7p/8/3b4/3B4/8/7P/R3K1NR b KQkq - 0 1",
    "1n2k3/P2p3p/8/8/8/8/p2P3P/1N2K3 w - - 0 1",
    // a mate in one is available throughout a long reversible shuffle (game-ending move late in a quiet stretch)
    "k7/8/1K6/8/8/8/8/7R w - - 0 1",
    "7K/8/6k1/8/8/8/8/r7 b - - 0 1",
];

fn run_history(run: &Run, start: &RefPos, hist: &[GOp], devs: &[(usize, Event)]) {
    run_history_ext(run, start, hist, &format!("{:?}", devs), false)
}
fn run_history_ext(run: &Run, start: &RefPos, hist: &[GOp], label: &str, claim_everywhere: bool) {
    let mut refg = RefGame::new(*start);
    let mut lib = match new_game(start) {
        Ok(g) => g,
        Err(e) => {
            eprintln!("MACHINERY FAILURE: filler root rejected: {e}");
            std::process::exit(2);
        }
    };
    let mut ops: Vec<GOp> = vec![];
    let mut prev_claim = Tri::No;
    run.add("filler_histories", 1);
    run.states.fetch_add(1, Ordering::Relaxed);
    for op in hist {
        let op = *op;
        ops.push(op);
        guard::crumb_text(&format!("filler history from {} deviations {} ply {}", start.fen(), label, ops.len()));
        run.transitions.fetch_add(1, Ordering::Relaxed);
        run.add("filler_plies", 1);
        match step(&mut refg, &mut lib, &op) {
            Err(f) => {
                report(run, f, start, &ops);
                return;
            }
            Ok(info) => {
                if !info.accepted && matches!(op, GOp::Move(_)) {
                    eprintln!("MACHINERY FAILURE: filler move {} refused by both sides?", op.name());
                    std::process::exit(2);
                }
            }
        }
        let clock = refg.halfmove_clock();
        if refg.claimable() == Tri::Yes {
            run.add("filler_claimable_plies", 1);
        }
        let claim_now = refg.claimable();
        let changed = claim_now != prev_claim;
        prev_claim = claim_now;
        if (95..=104).contains(&clock) || (claim_everywhere && changed) {
            // execute the claim on a clone: return value, result, frozen afterwards
            let (mut r2, mut l2) = (refg.clone(), lib.clone());
            ops.push(GOp::Declare);
            run.transitions.fetch_add(1, Ordering::Relaxed);
            match step(&mut r2, &mut l2, &GOp::Declare) {
                Err(f) => {
                    report(run, f, start, &ops);
                    return;
                }
                Ok(info) => {
                    run.add("filler_boundary_claims_executed", 1);
                    if info.accepted {
                        run.nontrivial.fetch_add(1, Ordering::Relaxed);
                        let op2 = GOp::Resign(Col::W);
                        ops.push(op2);
                        if let Err(f) = step(&mut r2, &mut l2, &op2) {
                            report(run, f, start, &ops);
                        }
                        ops.pop();
                    }
                }
            }
            ops.pop();
        }
        // game-ending moves available now: play each on a clone, then try to claim and to accept
        // (a finished game must refuse both, however long the quiet stretch before it was)
        if clock % 7 == 0 || clock >= 95 {
            let p = refg.position();
            for m in p.legal_moves().into_iter().filter(|m| p.apply(*m).legal_moves().is_empty()).take(2) {
                let (mut r2, mut l2) = (refg.clone(), lib.clone());
                let mut extra = 0;
                for op2 in [GOp::Move(m), GOp::Declare, GOp::Accept] {
                    ops.push(op2);
                    extra += 1;
                    run.transitions.fetch_add(1, Ordering::Relaxed);
                    if let Err(f) = step(&mut r2, &mut l2, &op2) {
                        report(run, f, start, &ops);
                        break;
                    }
                }
                run.add("filler_terminal_moves_tried", 1);
                for _ in 0..extra {
                    ops.pop();
                }
            }
        }
        if run.has_violation() {
            return;
        }
    }
}

// ------------------------------------------------------------------------------------------
// Regime C: repetitions with long spans.  Each side walks its king round a simple cycle of its
// own (period a moves for White, b for Black; 2 = one step there and back); the position with
// White to move after t move pairs is (w[t mod a], b[t mod b]), so every position recurs with gap
// 2*lcm(a,b) plies and nothing else ever repeats.  All (a, b) in 2..=12 give first-to-third
// spans of 8..528 plies; an optional deviation (a quiet pawn move that cuts the history, or an
// unaccepted draw offer) is spliced in at every ply.

pub const WALK_ROOT: &str = "4k3/7p/8/p7/P7/8/7P/4K3 w - - 0 1";

/// a simple cycle of `len` king steps from `from` inside files a..f of the two given ranks
fn king_cycle(from: Sq, len: usize, ranks: [i8; 2]) -> Option<Vec<Sq>> {
    fn adj(a: Sq, b: Sq) -> bool {
        a != b && (file_of(a) - file_of(b)).abs() <= 1 && (rank_of(a) - rank_of(b)).abs() <= 1
    }
    fn go(path: &mut Vec<Sq>, len: usize, cells: &[Sq]) -> bool {
        let last = *path.last().unwrap();
        if path.len() == len {
            return len == 2 || adj(last, path[0]);
        }
        for c in cells {
            if adj(last, *c) && !path.contains(c) {
                path.push(*c);
                if go(path, len, cells) {
                    return true;
                }
                path.pop();
            }
        }
        false
    }
    let cells: Vec<Sq> = (0..6i8).flat_map(|f| ranks.iter().map(move |r| sq(f, *r))).collect();
    let mut path = vec![from];
    if go(&mut path, len, &cells) {
        Some(path)
    } else {
        None
    }
}

#[derive(Clone, Copy, Debug, PartialEq, Eq)]
pub enum WalkDev {
    None,
    PawnMove(usize),
    Offer(usize),
    /// a draw offer as the very first action AND a history-cutting pawn move at the given ply
    OfferThenPawnMove(usize),
}

pub fn build_walk(a: usize, b: usize, dev: WalkDev, plies: usize) -> Option<(RefPos, Vec<GOp>)> {
    let start = RefPos::from_fen(WALK_ROOT).ok()?;
    let wc = king_cycle(start.king_sq(Col::W)?, a, [0, 1])?;
    let bc = king_cycle(start.king_sq(Col::B)?, b, [7, 6])?;
    let (mut wi, mut bi) = (0usize, 0usize);
    let mut p = start;
    let mut ops = vec![];
    let mut ply = 0usize;
    while ply < plies {
        match dev {
            WalkDev::Offer(t) if t == ply && !matches!(ops.last(), Some(GOp::Offer(_))) => {
                ops.push(GOp::Offer(p.stm));
                continue;
            }
            WalkDev::OfferThenPawnMove(_) if ply == 0 && ops.is_empty() => {
                ops.push(GOp::Offer(Col::W));
                continue;
            }
            _ => {}
        }
        let m = match dev {
            WalkDev::PawnMove(t) | WalkDev::OfferThenPawnMove(t) if t == ply => {
                let (f, t2) = if p.stm == Col::W { (sq(7, 1), sq(7, 2)) } else { (sq(7, 6), sq(7, 5)) };
                RMove { from: f, to: t2, promo: None }
            }
            _ => {
                if p.stm == Col::W {
                    let m = RMove { from: wc[wi % a], to: wc[(wi + 1) % a], promo: None };
                    wi += 1;
                    m
                } else {
                    let m = RMove { from: bc[bi % b], to: bc[(bi + 1) % b], promo: None };
                    bi += 1;
                    m
                }
            }
        };
        if !p.legal_moves().contains(&m) {
            return None;
        }
        p = p.apply(m);
        ops.push(GOp::Move(m));
        ply += 1;
    }
    Some((start, ops))
}

// ------------------------------------------------------------------------------------------
// Regime D: long-span repetition where position identity depends on castling rights.  White keeps
// K e1 + R a1 with the queen-side right and walks a KNIGHT round a simple cycle (even period a);
// Black walks its king (period b).  Deviation "rook trip": at White's first turn at or after ply t
// the rook steps a1-a2 and at White's next turn a2-a1 — the clock keeps running and every placement
// recurs, but with the right gone the earlier occurrences no longer count.

pub const WALK_ROOT_D: &str = "4k3/7p/8/p7/P7/8/7P/R3K1N1 w Q - 0 1";

fn knight_cycle(from: Sq, len: usize, blocked: &[Sq]) -> Option<Vec<Sq>> {
    fn adj(a: Sq, b: Sq) -> bool {
        let (df, dr) = ((file_of(a) - file_of(b)).abs(), (rank_of(a) - rank_of(b)).abs());
        (df == 1 && dr == 2) || (df == 2 && dr == 1)
    }
    fn go(path: &mut Vec<Sq>, len: usize, cells: &[Sq]) -> bool {
        let last = *path.last().unwrap();
        if path.len() == len {
            return len == 2 || adj(last, path[0]);
        }
        for c in cells {
            if adj(last, *c) && !path.contains(c) {
                path.push(*c);
                if go(path, len, cells) {
                    return true;
                }
                path.pop();
            }
        }
        false
    }
    // ranks 1-4 only: from there a knight never attacks the black king's ranks 7-8
    let cells: Vec<Sq> = (0..8i8).flat_map(|f| (0..4i8).map(move |r| sq(f, r))).filter(|s| !blocked.contains(s)).collect();
    let mut path = vec![from];
    if go(&mut path, len, &cells) {
        Some(path)
    } else {
        None
    }
}

#[derive(Clone, Copy, Debug, PartialEq, Eq)]
pub enum WalkDevD {
    None,
    RookTrip(usize),
    RookTripAndOffer(usize),
}

pub fn build_walk_d(a: usize, b: usize, dev: WalkDevD, plies: usize) -> Option<(RefPos, Vec<GOp>)> {
    let start = RefPos::from_fen(WALK_ROOT_D).ok()?;
    // a2 stays free for the rook trip (the a-file is closed by the pawns a4 / a5, so the rook never
    // attacks the black king's squares)
    let wc = knight_cycle(sq(6, 0), a, &[sq(0, 0), sq(0, 1), sq(0, 3), sq(4, 0), sq(7, 1)])?;
    let bc = king_cycle(start.king_sq(Col::B)?, b, [7, 6])?;
    let (mut wi, mut bi) = (0usize, 0usize);
    let mut p = start;
    let mut ops = vec![];
    let mut ply = 0usize;
    let mut trip = 0u8; // 0 = not started, 1 = rook is out, 2 = done
    let at = match dev {
        WalkDevD::None => usize::MAX,
        WalkDevD::RookTrip(t) | WalkDevD::RookTripAndOffer(t) => t,
    };
    while ply < plies {
        let m = if p.stm == Col::W && trip == 0 && ply >= at {
            trip = 1;
            if matches!(dev, WalkDevD::RookTripAndOffer(_)) {
                ops.push(GOp::Offer(Col::B));
            }
            RMove { from: sq(0, 0), to: sq(0, 1), promo: None }
        } else if p.stm == Col::W && trip == 1 {
            trip = 2;
            RMove { from: sq(0, 1), to: sq(0, 0), promo: None }
        } else if p.stm == Col::W {
            let m = RMove { from: wc[wi % a], to: wc[(wi + 1) % a], promo: None };
            wi += 1;
            m
        } else {
            let m = RMove { from: bc[bi % b], to: bc[(bi + 1) % b], promo: None };
            bi += 1;
            m
        };
        if !p.legal_moves().contains(&m) {
            eprintln!("walk D: move {} illegal in {} (ply {ply}, cycle {:?})", m.uci(), p.fen(), wc);
            return None;
        }
        p = p.apply(m);
        ops.push(GOp::Move(m));
        ply += 1;
    }
    Some((start, ops))
}

pub const RULE: &str = "Regime A (repetition): 8 roots, each with a fixed menu of 7-10 moves (knight and king shuffles; rooks/kings leaving and re-entering home squares so that placement repeats with different rights; a double push whose en-passant right exists only on the first occurrence; triangulation; history-cutting captures and pawn moves); EVERY sequence over menu + declare_draw + (at most one) offer_draw to depth 9 (quick) / 11-12 (thorough); menu moves illegal in the current state are attempted and must be refused. Regime B (fifty-move boundary, deviation bounding): from 6 roots (two of them K+R v K with a mate in one available throughout) a deterministic self-avoiding filler of reversible, rights-preserving moves (depth-first, first in sorted order) is the default behaviour; deviations are events spliced in at ply i (quiet pawn move, capture, rook move losing a right, king move losing both, castling, an unaccepted draw offer = a non-move entry in the action log, a capture by a pawn, a promotion); from two further roots a double push that creates an en-passant right followed at once by a quiet piece move onto the skipped square (plies i, i+1 for i <= 20); plus one undisturbed history of 280 (thorough 420) plies per root, every i in 0..=104 x every event kind with 1 deviation (quick) and every pair with 2 deviations (thorough); can_declare_draw() is compared after EVERY ply and at clock 95..=104 declare_draw() is also executed on a clone; whenever a mating or stalemating move is available (every 7th ply and from clock 95 on) it is played on a clone followed by declare_draw and accept_draw, which a finished game must refuse. Regime C (long-span repetition): both kings walk simple cycles of period a and b moves (a, b in 2..=12; every position recurs exactly every 2*lcm(a,b) plies, so first-to-third spans from 8 to 528 plies occur), for 140 plies (thorough 300), undisturbed and with one deviation (a history-cutting quiet pawn move, an unaccepted draw offer, or an offer as the first action plus the pawn move) at EVERY ply (thorough; quick: every ply for the pawn move when 4*lcm < 100, every 3rd otherwise); can_declare_draw() compared after every ply and declare_draw() executed on a clone wherever the claim status changes. Regime D (identity by castling rights across long spans): White keeps K e1 + R a1 with the queen-side right and walks a knight round a simple cycle of even period a <= 10, Black walks its king (period b <= 9), for 130 plies (thorough 260); undisturbed and with a 'rook trip' (a1-a2 and back at White's next turn: the clock keeps running and every placement recurs, but without the right the earlier occurrences no longer count; optionally preceded by a draw offer) started at EVERY ply. Oracle: FIDE 9.2/9.3 on the reference game (no result, and clock >= 100 or current position occurred >= 3 times; identity = placement, side, rights, en-passant possibility; histories whose verdict differs between 'a legal en-passant capture exists' and 'an enemy pawn stands beside' are not judged, T3). states = histories, transitions = operations. distinct_nontrivial = histories/plies at which a claim is due";

pub fn run(tier: Tier) -> i32 {
    let run = Arc::new(Run::new("C11", tier, COUNTERS));
    // ---- regime A
    let depth = tier.pick(9u32, 11u32);
    let jobs: Vec<(RefPos, Vec<GOp>, &MenuRoot)> = MENU_ROOTS
        .iter()
        .map(|r| (RefPos::from_fen(r.fen).expect("machinery: menu root"), r.menu.iter().map(|m| GOp::Move(RMove::parse_uci(m).expect("machinery: menu move"))).collect(), r))
        .collect();
    jobs.par_iter().for_each(|(start, menu, _r)| {
        let refg = RefGame::new(*start);
        let lib = new_game(start).unwrap_or_else(|e| {
            eprintln!("MACHINERY FAILURE: menu root rejected: {e}");
            std::process::exit(2)
        });
        // split over the first operation
        menu.par_iter().for_each(|op| {
            let (mut r2, mut l2) = (refg.clone(), lib.clone());
            let mut ops = vec![*op];
            run.transitions.fetch_add(1, Ordering::Relaxed);
            match step(&mut r2, &mut l2, op) {
                Err(f) => {
                    report(&run, f, start, &ops);
                }
                Ok(info) => {
                    if info.accepted {
                        menu_dfs(&run, start, menu, &r2, &l2, &mut ops, depth - 1, 0);
                    }
                }
            }
        });
    });
    run.note("menu_roots", json!(MENU_ROOTS.iter().map(|r| json!({"fen": r.fen, "menu": r.menu, "what": r.what})).collect::<Vec<_>>()));
    run.note("menu_depth", json!(depth));
    // ---- regime B
    let horizon = 106usize;
    let mut hist_jobs: Vec<(RefPos, Vec<(usize, Event)>)> = vec![];
    let mut long_jobs: Vec<RefPos> = vec![];
    for f in FILLER_ROOTS {
        let start = RefPos::from_fen(f).expect("machinery: filler root");
        hist_jobs.push((start, vec![]));
        long_jobs.push(start);
        for i in 0..=104usize {
            for e in EVENTS {
                hist_jobs.push((start, vec![(i, e)]));
            }
        }
        if tier == Tier::Thorough {
            for i in (0..=104usize).step_by(1) {
                for j in ((i + 1)..=104usize).step_by(3) {
                    for e1 in EVENTS {
                        for e2 in EVENTS {
                            hist_jobs.push((start, vec![(i, e1), (j, e2)]));
                        }
                    }
                }
            }
        }
    }
    // a double push that creates an en-passant right, answered at once by a quiet piece move onto the
    // skipped square (not a capture, not a pawn move: the clock must keep running), then the fifty-move boundary
    for f in SKIP_ROOTS {
        let start = RefPos::from_fen(f).expect("machinery: skip root");
        for st in [start, start.mirror_v()] {
            for i in 0..=20usize {
                hist_jobs.push((st, vec![(i, Event::DoublePush), (i + 1, Event::OntoSkipped)]));
                hist_jobs.push((st, vec![(i, Event::DoublePush)]));
            }
        }
    }
    let total = hist_jobs.len();
    hist_jobs.par_iter().for_each(|(start, devs)| {
        if run.has_violation() || run.over_budget() {
            return;
        }
        // after the last deviation at least 104 more plies
        let last = devs.last().map(|d| d.0 + 1).unwrap_or(0);
        match build_history(start, devs, (last + 105).max(horizon)) {
            None => run.add("filler_event_slots_unavailable", 1),
            Some(h) => {
                for (_, e) in devs {
                    run.add(
                        match e {
                            Event::PawnMove => "filler_deviations_pawn",
                            Event::Capture => "filler_deviations_capture",
                            Event::RookLosesRight => "filler_deviations_rook_loses_right",
                            Event::KingLosesRights => "filler_deviations_king_loses_rights",
                            Event::Castle => "filler_deviations_castle",
                            Event::Offer => "filler_deviations_offer",
                            Event::PawnCapture => "filler_deviations_pawn_capture",
                            Event::Promotion => "filler_deviations_promotion",
                            Event::DoublePush | Event::OntoSkipped => "filler_deviations_double_push_then_onto_skipped",
                        },
                        1,
                    );
                }
                run_history(&run, start, &h, devs);
            }
        }
    });
    // one long undisturbed history per root (claimable from ply 100 on, far beyond 255 entries)
    long_jobs.par_iter().for_each(|start| {
        if run.has_violation() {
            return;
        }
        if let Some(h) = build_history(start, &[], tier.pick(280, 420)) {
            run.add("filler_long_histories", 1);
            run_history(&run, start, &h, &[]);
        }
    });
    // ---- regime C
    let walk_plies = tier.pick(140usize, 300usize);
    let mut walk_jobs: Vec<(usize, usize, WalkDev)> = vec![];
    fn gcd(a: usize, b: usize) -> usize {
        if b == 0 {
            a
        } else {
            gcd(b, a % b)
        }
    }
    for a in 2..=12usize {
        for b in 2..=12usize {
            walk_jobs.push((a, b, WalkDev::None));
            let lcm = a * b / gcd(a, b);
            let dense = tier == Tier::Thorough || 4 * lcm < 100;
            for t in (0..walk_plies.min(140)).step_by(if dense { 1 } else { 3 }) {
                walk_jobs.push((a, b, WalkDev::PawnMove(t)));
                if t % 2 == 0 || tier == Tier::Thorough {
                    walk_jobs.push((a, b, WalkDev::OfferThenPawnMove(t)));
                }
            }
            for t in (0..walk_plies.min(140)).step_by(if tier == Tier::Thorough { 1 } else { 5 }) {
                walk_jobs.push((a, b, WalkDev::Offer(t)));
            }
        }
    }
    walk_jobs.par_iter().for_each(|(a, b, dev)| {
        if run.has_violation() || run.over_budget() {
            return;
        }
        match build_walk(*a, *b, *dev, walk_plies) {
            None => {
                eprintln!("MACHINERY FAILURE: walk history a={a} b={b} {:?} cannot be built", dev);
                std::process::exit(2);
            }
            Some((start, h)) => {
                run.add("walk_histories", 1);
                run_history_ext(&run, &start, &h, &format!("walk a={a} b={b} {:?}", dev), true);
            }
        }
    });
    run.note("walk_root", json!(WALK_ROOT));
    // ---- regime D
    let d_plies = tier.pick(130usize, 260usize);
    let mut d_jobs: Vec<(usize, usize, WalkDevD)> = vec![];
    for a in [2usize, 4, 6, 8, 10] {
        for b in 2..=9usize {
            d_jobs.push((a, b, WalkDevD::None));
            for t in 0..d_plies.min(130) {
                d_jobs.push((a, b, WalkDevD::RookTrip(t)));
                if t % 4 == 0 || tier == Tier::Thorough {
                    d_jobs.push((a, b, WalkDevD::RookTripAndOffer(t)));
                }
            }
        }
    }
    d_jobs.par_iter().for_each(|(a, b, dev)| {
        if run.has_violation() || run.over_budget() {
            return;
        }
        match build_walk_d(*a, *b, *dev, d_plies) {
            None => {
                eprintln!("MACHINERY FAILURE: walk history D a={a} b={b} {:?} cannot be built", dev);
                std::process::exit(2);
            }
            Some((start, h)) => {
                run.add("walk_histories", 1);
                run_history_ext(&run, &start, &h, &format!("walk D a={a} b={b} {:?}", dev), true);
            }
        }
    });
    run.note("walk_root_d", json!(WALK_ROOT_D));
    if run.over_budget() {
        run.cap(format!("wall-clock budget reached in regime B: {} of {} deviation histories run", run.get("filler_histories"), total));
    }
    run.note("filler_roots", json!(FILLER_ROOTS));
    run.sample(json!({"kind": "menu history", "start": MENU_ROOTS[0].fen, "ops": ["g1f3", "g8f6", "f3g1", "f6g8", "g1f3", "g8f6", "f3g1", "f6g8", "declare_draw"], "expect": "claim granted: third occurrence of the start position"}));
    if let Some(h) = build_history(&RefPos::from_fen(FILLER_ROOTS[1]).unwrap(), &[(60, Event::RookLosesRight)], 166) {
        run.sample(json!({"kind": "filler history", "start": FILLER_ROOTS[1], "deviation": "ply 60: rook move that drops the castling right", "plies": h.len(), "first_moves": h.iter().take(12).map(|m| m.name()).collect::<Vec<_>>(), "deviation_move": h[60].name()}));
    }
    run.finish("model_checking", RULE, true, json!({"deviation_histories_planned": total}))
}

pub fn replay(case: &Value) -> i32 {
    let run = Arc::new(Run::new("C11", Tier::Quick, COUNTERS));
    match replay_ops(case) {
        Ok(None) => {}
        Ok(Some((f, ops))) => {
            run.report(Violation::new("C11", f.clause, &f.shape, format!("{} after {} operations", f.detail, ops.len()), case.clone()));
        }
        Err(e) => {
            eprintln!("machinery: {e}");
            return 2;
        }
    }
    crate::replay_verdict(&run)
}
