//! C03 — check, pin and occupancy information always matches the actual position.

use super::common::*;
use crate::bridge::*;
use crate::engine::plan::*;
use crate::engine::posgraph::*;
use crate::guard;
use crate::refmodel::*;
use crate::run::{Run, Tier};
use chess::{BitBoard, Board, Color, Piece, ALL_PIECES};
use serde_json::{json, Value};
use std::str::FromStr;
use std::sync::atomic::Ordering;

pub const COUNTERS: &[&str] = &["states_in_check", "states_double_check", "states_with_pinned_man", "pinned_men", "states_after_null_move", "knight_checks", "pawn_checks", "slider_checks", "fen_round_trips", "in_place_arrivals_compared"];

pub struct C03;

impl PosOracle for C03 {
    fn id(&self) -> &'static str {
        "C03"
    }
    fn max_nulls(&self) -> u8 {
        2
    }
    /// The in-place entry point must arrive at a board equal (==, so checkers, pinned, hash
    /// included) to the one built from scratch as well.
    fn transition(&self, run: &Run, pre: &St, a: &Act, post: &St) -> Judged {
        if let Act::Mv(m) = a {
            let src = pre.lib;
            let lm = lmove(*m);
            let out = guard::lib(move || {
                let mut out = Board::default();
                src.make_move(lm, &mut out);
                out
            })
            .map_err(|e| Finding::new("panic", "make_move panicked", e))?;
            let fs = guard::lib(|| from_scratch(&post.key)).map_err(|e| Finding::new("panic", "from-scratch construction panicked", e))?.map_err(|e| Finding::new("from-scratch", "in-place make_move", format!("builder rejects the position: {e}")))?;
            if out != fs {
                let what = if out.checkers() != fs.checkers() { "checkers" } else if out.pinned() != fs.pinned() { "pinned" } else { "another field" };
                return Err(Finding::new("from-scratch", format!("reached by the in-place make_move: {what}"), format!("board after make_move({m}) differs under == from the same position built through the builder: {:?} vs {:?}", out, fs)));
            }
            run.add("in_place_arrivals_compared", 1);
        }
        Ok(())
    }
    fn state(&self, run: &Run, s: &St) -> Judged {
        let p = &s.key;
        let b = s.lib;
        let how = if s.path.is_none() { "built from scratch" } else if s.nulls > 0 { "reached through a null move" } else { "reached by moves" };
        let o = observe(&b);
        if !same_placement_side_rights(&o, p) {
            return Err(Finding::new("observable", how, format!("observable position {} differs from the reference {}", o.describe(), p.fen())));
        }
        // checkers
        let chk = bb_squares(*b.checkers());
        let want = p.checkers();
        if chk != want {
            return Err(Finding::new("checkers", how, format!("checkers() = {:?}, attackers of the king are {:?}", sqs(&chk), sqs(&want))));
        }
        // pins (own men only)
        let pin = bb_squares(*b.pinned() & *b.color_combined(lcol(p.stm)));
        let wantp = p.pinned(p.stm);
        if pin != wantp {
            return Err(Finding::new("pinned", how, format!("pinned() & own men = {:?}, absolutely pinned men are {:?}", sqs(&pin), sqs(&wantp))));
        }
        // occupancy consistency
        let mut union = BitBoard(0);
        for (i, x) in ALL_PIECES.iter().enumerate() {
            for y in ALL_PIECES.iter().skip(i + 1) {
                if (b.pieces(*x).0 & b.pieces(*y).0) != 0 {
                    return Err(Finding::new("occupancy", how, format!("pieces({:?}) and pieces({:?}) overlap", x, y)));
                }
            }
            union = BitBoard(union.0 | b.pieces(*x).0);
        }
        if union != *b.combined() {
            return Err(Finding::new("occupancy", how, "union of pieces(p) differs from combined()".to_string()));
        }
        let (w, k) = (b.color_combined(Color::White).0, b.color_combined(Color::Black).0);
        if w & k != 0 || (w | k) != b.combined().0 {
            return Err(Finding::new("occupancy", how, "colour bitboards overlap or do not add up to combined()".to_string()));
        }
        for sq in 0..64u8 {
            let bit = 1u64 << sq;
            let by_bb: Option<Piece> = ALL_PIECES.iter().copied().find(|x| b.pieces(*x).0 & bit != 0);
            let col_bb = if w & bit != 0 { Some(Color::White) } else if k & bit != 0 { Some(Color::Black) } else { None };
            if b.piece_on(lsq(sq)) != by_bb || b.color_on(lsq(sq)) != col_bb {
                return Err(Finding::new("occupancy", how, format!("piece_on/color_on({}) disagree with the bitboards", sq_name(sq))));
            }
        }
        for c in [Col::W, Col::B] {
            if Some(rsq(b.king_square(lcol(c)))) != p.king_sq(c) {
                return Err(Finding::new("king-square", how, format!("king_square({:?}) = {}", c, sq_name(rsq(b.king_square(lcol(c)))))));
            }
        }
        // equality with the from-scratch constructions
        let fs = guard::lib(|| from_scratch(p)).map_err(|e| Finding::new("panic", "from-scratch construction panicked", e))?.map_err(|e| Finding::new("from-scratch", how, format!("builder rejects the position: {e}")))?;
        if fs != b {
            return Err(Finding::new("from-scratch", how, format!("board reached incrementally differs under == from the same position built through the builder: {:?} vs {:?}", b, fs)));
        }
        let txt = guard::lib(|| b.to_string()).map_err(|e| Finding::new("panic", "Display panicked", e))?;
        let back = guard::lib(|| Board::from_str(&txt)).map_err(|e| Finding::new("panic", "from_str panicked", e))?;
        match back {
            Ok(bb) if bb == b => {}
            Ok(bb) => return Err(Finding::new("fen-round-trip", how, format!("Board::from_str(to_string()) differs under ==: text {txt}; {:?} vs {:?}", b, bb))),
            Err(e) => return Err(Finding::new("fen-round-trip", how, format!("own FEN {txt} does not parse: {e}"))),
        }
        run.add("fen_round_trips", 1);
        run.add("states_in_check", (want.len() == 1) as u64);
        run.add("states_double_check", (want.len() >= 2) as u64);
        run.add("states_with_pinned_man", (!wantp.is_empty()) as u64);
        run.add("pinned_men", wantp.len() as u64);
        run.add("states_after_null_move", (s.nulls > 0) as u64);
        for c in want.iter() {
            match p.at(*c).map(|x| x.0) {
                Some(Kind::N) => run.add("knight_checks", 1),
                Some(Kind::P) => run.add("pawn_checks", 1),
                _ => run.add("slider_checks", 1),
            }
        }
        if !want.is_empty() || !wantp.is_empty() {
            run.nontrivial.fetch_add(1, Ordering::Relaxed);
        }
        let n = run.states.load(Ordering::Relaxed);
        run.sample_nth(n, 300_007, || json!({"kind": "judged state", "fen": p.fen(), "how": how, "checkers": sqs(&want), "pinned": sqs(&wantp)}));
        Ok(())
    }
}
pub fn sqs(v: &[Sq]) -> Vec<String> {
    v.iter().map(|s| sq_name(*s)).collect()
}

pub const RULE: &str = "states = every position of the bounded trees (incl. up to 2 null moves per path), families and their children; each judged: checkers() == reference attackers of the mover's king; pinned() & own men == reference absolutely-pinned set (by definition: removing the man exposes the king); pieces/colour/combined bitboards and piece_on/color_on/king_square mutually consistent and equal to the reference placement; board == same position built through the builder; board == Board::from_str(board.to_string()). distinct_nontrivial = judged states with a check or a pinned man";

pub fn run(tier: Tier) -> i32 {
    let (run, _) = run_e1("C03", tier, COUNTERS, C03, with_line_geometry(with_ep_slider_positions(standard_plan(tier, 1), tier), true, tier.pick(0, 1)), RULE, &[]);
    finish(&run, RULE)
}
pub fn replay(case: &Value) -> i32 {
    replay_e1("C03", COUNTERS, C03, case)
}
