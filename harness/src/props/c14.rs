//! C14 — move iterator contract: masks partition, len exact, removed moves stay removed.
//! E2: every program (removals, then mask phases each iterated to exhaustion with len() and
//! size_hint() read before every next()) within stated bounds, on a set of positions.

use crate::bridge::*;
use crate::engine::posgraph::crumb_pos;
use crate::guard;
use crate::refmodel::*;
use crate::run::{Run, Tier, Violation};
use crate::universe::*;
use chess::{BitBoard, Board, MoveGen};
use rayon::prelude::*;
use serde_json::{json, Value};
use std::collections::BTreeSet;
use std::sync::atomic::{AtomicU64, Ordering};
use std::sync::Arc;

pub const COUNTERS: &[&str] = &["positions", "programs", "phases_iterated", "next_calls", "len_reads", "programs_with_removal", "programs_with_ep_removal", "programs_with_promotion_position", "tolerated_same_source_dest_yields", "mask_alphabet_max", "adaptor_checks"];

#[derive(Clone, Copy, PartialEq, Eq, Debug)]
pub enum Removal {
    Move(RMove),
    Mask(u64),
}
#[derive(Clone, Debug)]
pub struct Program {
    pub removals: Vec<Removal>,
    /// None = iterate without calling set_iterator_mask first (fresh generator, full mask)
    pub phases: Vec<Option<u64>>,
    /// a removal issued between two exhausted phases: (number of phases before it, removal)
    pub late: Option<(usize, Removal)>,
    /// the late removal is issued AFTER set_iterator_mask of its phase (before the first next()),
    /// not before it
    pub late_after_mask: bool,
}
#[derive(Clone, Debug)]
pub struct PhaseObs {
    pub lens: Vec<usize>,
    pub hints_ok: bool,
    pub yielded: Vec<RMove>,
    pub terminated: bool,
    /// sporadic observation mode: (number of next() calls made before, len())
    pub sparse_lens: Vec<(usize, usize)>,
    pub sparse_hints: Vec<(usize, usize, Option<usize>)>,
}

/// Execute a program on the real generator.
pub fn execute(b: &Board, prog: &Program) -> Vec<PhaseObs> {
    execute_mode(b, prog, true)
}
/// `observe` = read len() and size_hint() before every next(); false = never call them (a caller that
/// just iterates: internal bookkeeping that a len() call happens to refresh stays stale)
pub fn execute_mode(b: &Board, prog: &Program, observe: bool) -> Vec<PhaseObs> {
    execute_obs(b, prog, if observe { 1 } else { 0 })
}
/// mode 0: no len() / size_hint() call; 1: before every next(); 2: len() only before every third next()
/// (starting with the second), size_hint() before the others — lens then holds (index, value) via `lens_at`
pub fn execute_obs(b: &Board, prog: &Program, mode: u8) -> Vec<PhaseObs> {
    let observe = mode == 1;
    let mut g = MoveGen::new_legal(b);
    for r in prog.removals.iter() {
        match r {
            Removal::Move(m) => {
                let _ = g.remove_move(lmove(*m));
            }
            Removal::Mask(k) => g.remove_mask(BitBoard(*k)),
        }
    }
    let mut out = vec![];
    for (pi, ph) in prog.phases.iter().enumerate() {
        let late_now = matches!(&prog.late, Some((at, _)) if *at == pi);
        let mut apply_late = |g: &mut MoveGen| {
            if let Some((_, r)) = &prog.late {
                match r {
                    Removal::Move(m) => {
                        let _ = g.remove_move(lmove(*m));
                    }
                    Removal::Mask(k) => g.remove_mask(BitBoard(*k)),
                }
            }
        };
        if late_now && !prog.late_after_mask {
            apply_late(&mut g);
        }
        if let Some(k) = ph {
            g.set_iterator_mask(BitBoard(*k));
        }
        if late_now && prog.late_after_mask {
            apply_late(&mut g);
        }
        let mut o = PhaseObs { lens: vec![], hints_ok: true, yielded: vec![], terminated: false, sparse_lens: vec![], sparse_hints: vec![] };
        for step_no in 0..400usize {
            if mode == 2 {
                if step_no % 3 == 1 {
                    o.sparse_lens.push((step_no, g.len()));
                } else {
                    let (lo, hi) = g.size_hint();
                    o.sparse_hints.push((step_no, lo, hi));
                }
            }
            if observe {
                let l = g.len();
                o.lens.push(l);
                if g.size_hint() != (l, Some(l)) {
                    o.hints_ok = false;
                }
            }
            match g.next() {
                Some(m) => o.yielded.push(rmove(m)),
                None => {
                    o.terminated = true;
                    if observe {
                        o.lens.push(g.len());
                    }
                    break;
                }
            }
        }
        out.push(o);
    }
    out
}

fn prog_json(p: &RefPos, prog: &Program) -> Value {
    json!({
        "kind": "movegen-program",
        "fen": p.fen(),
        "removals": prog.removals.iter().map(|r| match r { Removal::Move(m) => json!({"remove_move": m.uci()}), Removal::Mask(k) => json!({"remove_mask": format!("{k:#018x}")}) }).collect::<Vec<_>>(),
        "phases": prog.phases.iter().map(|k| match k { Some(k) => json!(format!("{k:#018x}")), None => json!("no set_iterator_mask call") }).collect::<Vec<_>>(),
        "late_after_mask": prog.late_after_mask,
        "late_removal": match &prog.late { None => Value::Null, Some((at, r)) => json!({"before_phase": at, "removal": match r { Removal::Move(m) => json!({"remove_move": m.uci()}), Removal::Mask(k) => json!({"remove_mask": format!("{k:#018x}")}) }}) },
    })
}
fn prog_json_mode(p: &RefPos, prog: &Program, observe: bool) -> Value {
    let mut v = prog_json(p, prog);
    v["observe_len"] = json!(observe);
    v
}
fn prog_parse(case: &Value) -> Option<(RefPos, Program)> {
    let p = RefPos::from_fen(case["fen"].as_str()?).ok()?;
    let hx = |s: &str| u64::from_str_radix(s.trim_start_matches("0x"), 16).ok();
    let mut removals = vec![];
    for r in case["removals"].as_array()? {
        if let Some(m) = r["remove_move"].as_str() {
            removals.push(Removal::Move(RMove::parse_uci(m)?));
        } else {
            removals.push(Removal::Mask(hx(r["remove_mask"].as_str()?)?));
        }
    }
    let mut phases = vec![];
    for k in case["phases"].as_array()? {
        let s = k.as_str()?;
        phases.push(if s.starts_with("0x") { Some(hx(s)?) } else { None });
    }
    let late = match &case["late_removal"] {
        Value::Null => None,
        l => {
            let at = l["before_phase"].as_u64()? as usize;
            let r = &l["removal"];
            Some((at, if let Some(m) = r["remove_move"].as_str() { Removal::Move(RMove::parse_uci(m)?) } else { Removal::Mask(hx(r["remove_mask"].as_str()?)?) }))
        }
    };
    let late_after_mask = case["late_after_mask"].as_bool().unwrap_or(false);
    Some((p, Program { removals, phases, late, late_after_mask }))
}

/// Judge the observation of one program against the reference remaining-move set.
fn judge(run: &Run, p: &RefPos, legal: &[RMove], prog: &Program, obs: &[PhaseObs]) -> Result<u64, (String, String, String)> {
    let mut removed_moves: Vec<RMove> = prog.removals.iter().filter_map(|r| if let Removal::Move(m) = r { Some(*m) } else { None }).collect();
    let mut removed_mask: u64 = prog.removals.iter().filter_map(|r| if let Removal::Mask(k) = r { Some(*k) } else { None }).fold(0, |a, b| a | b);
    let has_promo = legal.iter().any(|m| m.promo.is_some());
    let all_removals: Vec<Removal> = prog.removals.iter().copied().chain(prog.late.iter().map(|l| l.1)).collect();
    let rem_kind = if all_removals.is_empty() {
        "no removal".to_string()
    } else {
        let mut k: Vec<&str> = all_removals
            .iter()
            .map(|r| match r {
                Removal::Mask(_) => "remove_mask",
                Removal::Move(m) if !legal.contains(m) => "remove_move of an illegal move",
                Removal::Move(m) if p.is_ep(*m) => "remove_move of an en-passant capture",
                Removal::Move(m) if m.promo.is_some() => "remove_move of a promotion",
                Removal::Move(_) => "remove_move",
            })
            .collect();
        k.sort();
        k.dedup();
        format!("{}{}", k.join(" + "), if prog.late.is_some() { " (one of them between two phases)" } else { "" })
    };
    let mut remaining: BTreeSet<RMove> = legal.iter().copied().collect();
    let mut tolerated = 0u64;
    for (i, (ph, o)) in prog.phases.iter().zip(obs.iter()).enumerate() {
        if let Some((at, r)) = &prog.late {
            if *at == i {
                match r {
                    Removal::Move(m) => removed_moves.push(*m),
                    Removal::Mask(k) => removed_mask |= *k,
                }
            }
        }
        let (rm, rk) = (removed_moves.clone(), removed_mask);
        // must never be yielded: removed (exact) moves and moves onto removed squares
        let never = |m: &RMove| rm.contains(m) || rk & (1u64 << m.to) != 0;
        // unspecified (T5): shares source and destination with a removed move but is not that move
        let gray = |m: &RMove| !never(m) && rm.iter().any(|r| r.from == m.from && r.to == m.to);
        let mask = ph.unwrap_or(!0u64);
        let mk = if ph.is_none() { "fresh generator" } else if mask == !0u64 { "full mask" } else if mask == 0 { "empty mask" } else { "partial mask" };
        let shape = |what: &str| format!("{what}; {rem_kind}; {mk}{}", if has_promo { "; position with promotions" } else { "" });
        if !o.terminated {
            return Err(("termination".into(), shape("iteration does not end"), format!("phase {i}: more than 400 next() calls")));
        }
        let mut seen = BTreeSet::new();
        for m in o.yielded.iter() {
            if !seen.insert(*m) || (!remaining.contains(m) && legal.contains(m) && !never(m)) {
                return Err(("duplicate".into(), shape("move yielded twice"), format!("phase {i}: {m} yielded although it was yielded before; phase yield {:?}", names(&o.yielded))));
            }
            if !legal.contains(m) {
                return Err(("not-legal".into(), shape("yielded move is not legal"), format!("phase {i}: {m} is not a legal move")));
            }
            if never(m) {
                return Err(("removed-yielded".into(), shape("excluded move yielded"), format!("phase {i}: {m} was excluded beforehand but is yielded; phase yield {:?}", names(&o.yielded))));
            }
            if mask & (1u64 << m.to) == 0 {
                return Err(("outside-mask".into(), shape("move outside the mask yielded"), format!("phase {i}: {m} does not land on a masked square")));
            }
            if gray(m) {
                tolerated += 1;
            }
        }
        for m in remaining.iter() {
            if mask & (1u64 << m.to) != 0 && !never(m) && !gray(m) && !seen.contains(m) {
                return Err(("missing".into(), shape("legal move under the mask not yielded"), format!("phase {i}: {m} lands on the mask, was not excluded and not yielded before, but is not yielded; phase yield {:?}", names(&o.yielded))));
            }
        }
        // len() before the k-th next() == number of moves the phase still goes on to yield
        let n = o.yielded.len();
        for (k, l) in o.lens.iter().enumerate() {
            let want = n.saturating_sub(k);
            if *l != want {
                let when = if k == 0 { "before the first next()" } else if k >= n { "after exhaustion" } else { "mid-iteration" };
                return Err(("len".into(), shape(&format!("len() wrong {when}")), format!("phase {i}: len() read before next() #{k} is {l}, but {want} moves are still yielded; lens {:?}; yield {:?}", o.lens, names(&o.yielded))));
            }
        }
        for (k, l) in o.sparse_lens.iter() {
            let want = n.saturating_sub(*k);
            if *l != want {
                return Err(("len".into(), shape("len() wrong when read only now and then"), format!("phase {i}: len() read after {k} next() calls (and not before every one) is {l}, but {want} moves are still yielded")));
            }
        }
        for (k, lo, hi) in o.sparse_hints.iter() {
            let want = n.saturating_sub(*k);
            if *lo > want || hi.map(|h| h < want).unwrap_or(false) {
                return Err(("size-hint".into(), shape("size_hint() bounds wrong when read without len()"), format!("phase {i}: size_hint() after {k} next() calls is ({lo}, {:?}), but {want} moves are still yielded", hi)));
            }
        }
        if !o.hints_ok {
            return Err(("size-hint".into(), shape("size_hint != (len, Some(len))"), format!("phase {i}")));
        }
        for m in o.yielded.iter() {
            remaining.remove(m);
        }
    }
    // whole program: after a final full-mask phase everything not excluded has been yielded once
    let never = |m: &RMove| removed_moves.contains(m) || removed_mask & (1u64 << m.to) != 0;
    let gray = |m: &RMove| !never(m) && removed_moves.iter().any(|r| r.from == m.from && r.to == m.to);
    if prog.phases.last().map(|k| k.unwrap_or(!0) == !0u64).unwrap_or(false) {
        for m in remaining.iter() {
            if !never(m) && !gray(m) {
                return Err(("total".into(), format!("legal move never yielded; {rem_kind}"), format!("{m} was never yielded although the last phase had the full mask")));
            }
        }
    }
    run.tolerant("T5: move sharing source and destination with a removed move", tolerated);
    Ok(tolerated)
}
fn names(v: &[RMove]) -> Vec<String> {
    v.iter().map(|m| m.uci()).collect()
}

/// The mask alphabet of a position.
fn masks(p: &RefPos, legal: &[RMove], max_single: usize) -> Vec<u64> {
    let enemy: u64 = (0..64u8).filter(|s| matches!(p.at(*s), Some((_, c)) if c != p.stm)).fold(0, |a, s| a | (1u64 << s));
    let mut v = vec![enemy, !enemy, !0u64, 0u64, 0xFF000000000000FFu64];
    // single destination squares: special moves first
    let mut dests: Vec<(u8, Sq)> = legal
        .iter()
        .map(|m| (if p.is_ep(*m) { 0 } else if m.promo.is_some() { 1 } else if p.is_castle(*m) { 2 } else if p.is_capture(*m) { 3 } else { 4 }, m.to))
        .collect();
    dests.sort();
    let mut seen = BTreeSet::new();
    for (_, d) in dests {
        if seen.insert(d) && seen.len() <= max_single {
            v.push(1u64 << d);
        }
    }
    if let Some(m) = legal.first() {
        v.push(0x0101010101010101u64 << (m.to % 8));
    }
    // two squares: the destinations of the first and of the last legal move; and the set of all SOURCE squares
    if let (Some(a), Some(z)) = (legal.first(), legal.last()) {
        v.push((1u64 << a.to) | (1u64 << z.to));
    }
    v.push(legal.iter().fold(0u64, |acc, m| acc | (1u64 << m.from)));
    v.dedup();
    v
}

fn programs(p: &RefPos, legal: &[RMove], tier: Tier) -> Vec<Program> {
    let a = masks(p, legal, tier.pick(8, 14));
    let mut rem: Vec<Removal> = legal.iter().map(|m| Removal::Move(*m)).collect();
    // two illegal moves: from an empty square, and a legal source with an unreachable destination
    if let Some(e) = (0..64u8).find(|s| p.at(*s).is_none()) {
        rem.push(Removal::Move(RMove::new(e, (e + 9) % 64, None)));
    }
    if let Some(m) = legal.first() {
        if let Some(d) = (0..64u8).find(|d| !legal.iter().any(|x| x.from == m.from && x.to == *d)) {
            rem.push(Removal::Move(RMove::new(m.from, d, None)));
        }
    }
    for k in a.iter() {
        if *k != 0 && *k != !0u64 {
            rem.push(Removal::Mask(*k));
        }
    }
    let ph: Vec<Option<u64>> = a.iter().map(|k| Some(*k)).collect();
    let mut out = vec![];
    let flush = Some(!0u64);
    // no removal: fresh iteration, and up to 3 mask phases
    out.push(Program { removals: vec![], phases: vec![None], late: None, late_after_mask: false });
    let mut seqs: Vec<Vec<Option<u64>>> = vec![vec![]];
    for x in ph.iter() {
        seqs.push(vec![*x]);
        for y in ph.iter() {
            seqs.push(vec![*x, *y]);
            if tier == Tier::Thorough || p.men() <= 8 {
                for z in ph.iter() {
                    seqs.push(vec![*x, *y, *z]);
                }
            }
        }
    }
    for s in seqs.iter() {
        let mut phases = s.clone();
        phases.push(flush);
        out.push(Program { removals: vec![], phases, late: None, late_after_mask: false });
    }
    // one removal: fresh iteration, up to 2 phases
    for r in rem.iter() {
        out.push(Program { removals: vec![*r], phases: vec![None], late: None, late_after_mask: false });
        for s in seqs.iter().filter(|s| s.len() <= 2) {
            let mut phases = s.clone();
            phases.push(flush);
            out.push(Program { removals: vec![*r], phases, late: None, late_after_mask: false });
        }
    }
    // a removal issued BETWEEN two exhausted phases: [one mask phase][removal][<=1 mask phase][flush]
    for x in ph.iter() {
        for r in rem.iter() {
            out.push(Program { removals: vec![], phases: vec![*x, flush], late: Some((1, *r)), late_after_mask: false });
            for y in ph.iter().take(6) {
                out.push(Program { removals: vec![], phases: vec![*x, *y, flush], late: Some((1, *r)), late_after_mask: false });
            }
        }
    }
    // a removal issued right AFTER set_iterator_mask and before the first next() of that phase:
    // [mask x, removal, iterate][flush] and [mask y iterated][mask x, removal, iterate][flush]
    for x in ph.iter() {
        for r in rem.iter() {
            out.push(Program { removals: vec![], phases: vec![*x, flush], late: Some((0, *r)), late_after_mask: true });
            out.push(Program { removals: vec![], phases: vec![*x, *x, flush], late: Some((1, *r)), late_after_mask: true });
            for y in ph.iter().take(4) {
                out.push(Program { removals: vec![], phases: vec![*y, *x, flush], late: Some((1, *r)), late_after_mask: true });
            }
        }
    }
    // an early removal AND a late one with a phase in between: [r1][phase x][r2][phase y][flush]
    for r1 in rem.iter().take(8).chain(rem.iter().filter(|r| matches!(r, Removal::Mask(_))).take(4)) {
        for r2 in rem.iter() {
            for x in ph.iter().take(4) {
                out.push(Program { removals: vec![*r1], phases: vec![*x, flush], late: Some((1, *r2)), late_after_mask: false });
                out.push(Program { removals: vec![*r1], phases: vec![*x, *x, flush], late: Some((1, *r2)), late_after_mask: true });
            }
        }
    }
    if p.men() <= 8 {
        // four mask phases, and three removals, on sparse positions
        for x in ph.iter() {
            for y in ph.iter() {
                for z in ph.iter().take(6) {
                    for w in ph.iter().take(6) {
                        out.push(Program { removals: vec![], phases: vec![*x, *y, *z, *w, flush], late: None, late_after_mask: false });
                    }
                }
            }
        }
        for (i, r1) in rem.iter().enumerate() {
            for (j, r2) in rem.iter().enumerate().skip(i) {
                for r3 in rem.iter().skip(j) {
                    out.push(Program { removals: vec![*r1, *r2, *r3], phases: vec![None], late: None, late_after_mask: false });
                    out.push(Program { removals: vec![*r1, *r2, *r3], phases: vec![ph[0], flush], late: None, late_after_mask: false });
                }
            }
        }
    }
    // two removals: fresh iteration, up to 1 phase
    for (i, r1) in rem.iter().enumerate() {
        for r2 in rem.iter().skip(i) {
            out.push(Program { removals: vec![*r1, *r2], phases: vec![None], late: None, late_after_mask: false });
            for s in seqs.iter().filter(|s| s.len() <= 1) {
                let mut phases = s.clone();
                phases.push(flush);
                out.push(Program { removals: vec![*r1, *r2], phases, late: None, late_after_mask: false });
            }
        }
    }
    out
}

pub const ITER_ROOTS: &[&str] = &[
    "rnbqkbnr/pppppppp/8/8/8/8/PPPPPPPP/RNBQKBNR w KQkq - 0 1",
    "rnbqkbnr/1pp1pppp/p7/3pP3/8/8/PPPP1PPP/RNBQKBNR w KQkq d6 0 1",
    "8/8/8/8/2pPp3/8/8/k3K3 b - d3 0 1",
    "4k3/8/8/2PpP3/8/8/8/4K3 w - d6 0 1",
    "8/P1k5/K7/8/8/8/8/8 w - - 0 1",
    "1n1n4/2P5/8/8/8/8/k7/4K3 w - - 0 1",
    "r3k2r/1P4P1/8/8/8/8/1p4p1/R3K2R w KQkq - 0 1",
    "n1n5/PPPk4/8/8/8/8/4Kppp/5N1N b - - 0 1",
    "4k3/8/8/8/7b/8/3PN3/R3K2R w KQ - 0 1",
    "4k3/8/8/8/8/5n2/8/r3K3 w - - 0 1",
    "r3k2r/p1ppqpb1/bn2pnp1/3PN3/1p2P3/2N2Q1p/PPPBBPPP/R3K2R w KQkq - 0 1",
    "r3k2r/8/8/8/8/8/8/R3K2R w KQkq - 0 1",
    "8/8/8/8/8/k7/p1K5/8 b - - 0 1",
    "7k/5Q2/8/8/8/8/8/K7 w - - 0 1",
    "7k/8/6Q1/8/8/8/8/K7 b - - 0 1",
    "8/8/3k4/8/3pP3/8/8/3RK3 b - e3 0 1",
    // 18 move-list entries (16 movers + two en-passant entries): the list's capacity
    "rnbqkbnr/1pp1pppp/p7/2PpP3/P6P/1P1P1PP1/8/RNBQKBNR w KQkq d6 0 1",
];

/// The provided Iterator methods an implementation may override, on the fresh generator and under
/// every single mask of the alphabet: count, last, nth(k) for every k (with the rest of the iteration
/// afterwards), by_ref().take(k) followed by the rest, skip, step_by, fold — each compared with plain
/// next() iteration of an identically prepared generator.
fn adaptors(run: &Run, p: &RefPos, b: &Board, legal: &[RMove]) -> u64 {
    let mut n = 0u64;
    let mut alphabet: Vec<Option<u64>> = vec![None];
    alphabet.extend(masks(p, legal, 6).into_iter().map(Some));
    for mk in alphabet {
        let make = || {
            let mut g = MoveGen::new_legal(b);
            if let Some(k) = mk {
                g.set_iterator_mask(BitBoard(k));
            }
            g
        };
        let r = guard::lib(|| {
            let plain: Vec<RMove> = make().map(rmove).collect();
            let mut bad: Option<String> = None;
            let mut note = |s: String| {
                if bad.is_none() {
                    bad = Some(s);
                }
            };
            if make().count() != plain.len() {
                note(format!("count() = {} but plain iteration yields {} moves", make().count(), plain.len()));
            }
            if make().last().map(rmove) != plain.last().copied() {
                note("last() differs from the last move of plain iteration".into());
            }
            if make().fold(0usize, |a, _| a + 1) != plain.len() {
                note("fold() visits a different number of moves".into());
            }
            // nth / skip after a few plain next() calls (cursor inside an entry, e.g. a promotion entry)
            for k0 in 1..=plain.len().min(5) {
                for k in 0..=(plain.len() - k0 + 1) {
                    let mut g = make();
                    for _ in 0..k0 {
                        let _ = g.next();
                    }
                    let got = g.nth(k).map(rmove);
                    let rest: Vec<RMove> = g.take(400).map(rmove).collect();
                    let want_rest: Vec<RMove> = plain.iter().copied().skip(k0 + k + 1).collect();
                    if got != plain.get(k0 + k).copied() || rest != want_rest {
                        note(format!("after {k0} next() calls, nth({k}) = {:?} (plain iteration has {:?} there) and {} moves follow (expected {})", got.map(|m| m.uci()), plain.get(k0 + k).map(|m| m.uci()), rest.len(), want_rest.len()));
                    }
                    let mut g = make();
                    for _ in 0..k0 {
                        let _ = g.next();
                    }
                    let _ = g.nth(k);
                    let l = g.len();
                    let left = plain.len().saturating_sub(k0 + k + 1);
                    if l != left {
                        note(format!("after {k0} next() calls and nth({k}), len() = {l} but {left} moves are left"));
                    }
                }
            }
            // an adaptor that advances the cursor, the REST of the phase iterated to exhaustion, then a new (full)
            // mask: nothing of the exhausted phase may come again, everything else must, and len() must say so
            let all: Vec<RMove> = MoveGen::new_legal(b).map(rmove).collect();
            for k in 0..=plain.len() {
                for which in 0..2 {
                    let mut g = make();
                    if which == 0 {
                        let _ = g.nth(k);
                    } else {
                        let _ = g.by_ref().take(k).count();
                    }
                    let mut guard_n = 0;
                    while g.next().is_some() && guard_n < 400 {
                        guard_n += 1;
                    }
                    g.set_iterator_mask(!chess::EMPTY);
                    let l = g.len();
                    let rest: Vec<RMove> = g.take(400).map(rmove).collect();
                    let mut want: Vec<RMove> = all.iter().copied().filter(|m| !plain.contains(m)).collect();
                    let mut got_sorted = rest.clone();
                    got_sorted.sort();
                    want.sort();
                    if got_sorted != want || l != want.len() {
                        note(format!("after {}, the rest of the phase, and then set_iterator_mask(full): len() = {l}, {} moves follow, expected {} (the moves of the exhausted phase must not return, all others must)", if which == 0 { format!("nth({k})") } else { format!("by_ref().take({k})") }, rest.len(), want.len()));
                    }
                }
            }
            for k in 0..=plain.len() + 1 {
                let mut g = make();
                let got = g.nth(k).map(rmove);
                if got != plain.get(k).copied() {
                    note(format!("nth({k}) = {:?}, plain iteration has {:?} there", got.map(|m| m.uci()), plain.get(k).map(|m| m.uci())));
                }
                let rest: Vec<RMove> = g.take(400).map(rmove).collect();
                let want: Vec<RMove> = plain.iter().copied().skip(k + 1).collect();
                if rest != want {
                    note(format!("after nth({k}) the rest of the iteration has {} moves, expected {}", rest.len(), want.len()));
                }
                let mut g = make();
                let head: Vec<RMove> = g.by_ref().take(k).map(rmove).collect();
                let tail: Vec<RMove> = g.take(400).map(rmove).collect();
                if head.iter().chain(tail.iter()).copied().collect::<Vec<_>>() != plain {
                    note(format!("by_ref().take({k}) followed by the rest differs from plain iteration"));
                }
                if k >= 1 && k <= 5 {
                    let st: Vec<RMove> = make().step_by(k).take(400).map(rmove).collect();
                    if st != plain.iter().copied().step_by(k).collect::<Vec<_>>() {
                        note(format!("step_by({k}) differs from plain iteration"));
                    }
                    let sk: Vec<RMove> = make().skip(k).take(400).map(rmove).collect();
                    if sk != plain.iter().copied().skip(k).collect::<Vec<_>>() {
                        note(format!("skip({k}) differs from plain iteration"));
                    }
                }
            }
            (bad, plain.len())
        });
        match r {
            Ok((None, l)) => n += 6 * (l as u64 + 2),
            Ok((Some(e), _)) => {
                run.report(Violation::new("C14", "adaptor", "a provided Iterator method disagrees with next()", format!("{e}\n  position {}\n  mask {:?}", p.fen(), mk.map(|k| format!("{k:#018x}"))), json!({"kind": "movegen-adaptor", "fen": p.fen(), "removals": [], "phases": [], "late_removal": Value::Null})));
                return n;
            }
            Err(e) => {
                run.report(Violation::new("C14", "panic", "", format!("an iterator adaptor panicked: {e}\n  position {}", p.fen()), json!({"kind": "movegen-adaptor", "fen": p.fen(), "removals": [], "phases": [], "late_removal": Value::Null})));
                return n;
            }
        }
    }
    n
}

fn check_position(run: &Run, p: &RefPos, tier: Tier, nprog: &AtomicU64) {
    let b = match guard::lib(|| from_scratch(p)) {
        Ok(Ok(b)) => b,
        _ => return,
    };
    crumb_pos(p, None);
    let legal = p.legal_moves();
    let progs = programs(p, &legal, tier);
    run.add("positions", 1);
    let an = adaptors(run, p, &b, &legal);
    run.add("adaptor_checks", an);
    if run.has_violation() {
        return;
    }
    run.add("programs_with_promotion_position", legal.iter().any(|m| m.promo.is_some()) as u64 * progs.len() as u64);
    run.add("mask_alphabet_max", 0);
    // dense positions have hundreds of thousands of programs: parallel inside the position as well
    let sums = progs
        .par_chunks(512)
        .map(|chunk| {
            let (mut phases, mut nexts, mut lens, mut withrem, mut withep, mut tol) = (0u64, 0u64, 0u64, 0u64, 0u64, 0u64);
            let mut blind_nexts = 0u64;
            for prog in chunk {
                if run.has_violation() {
                    break;
                }
                crumb_pos(p, None);
                // the same program once more without any len() / size_hint() call in between
                let blind = match guard::lib(|| execute_mode(&b, prog, false)) {
                    Ok(o) => o,
                    Err(e) => {
                        run.report(Violation::new("C14", "panic", "", format!("program panicked (no len() calls): {e}"), prog_json_mode(p, prog, false)));
                        break;
                    }
                };
                if let Err((clause, shape, detail)) = judge(run, p, &legal, prog, &blind) {
                    let v = Violation::new("C14", &clause, &format!("{shape}; iterated without len() calls"), format!("{detail}\n  position {}\n  program (no len() / size_hint() calls) {}", p.fen(), prog_json(p, prog)), prog_json_mode(p, prog, false));
                    if run.report(v) {
                        break;
                    }
                }
                blind_nexts += blind.iter().map(|o| o.yielded.len() as u64 + 1).sum::<u64>();
                // ... and once more reading len() only now and then (size_hint() in between)
                match guard::lib(|| execute_obs(&b, prog, 2)) {
                    Ok(sp) => {
                        if let Err((clause, shape, detail)) = judge(run, p, &legal, prog, &sp) {
                            let mut c = prog_json(p, prog);
                            c["observe_mode"] = json!(2);
                            let v = Violation::new("C14", &clause, &format!("{shape}; len() read only now and then"), format!("{detail}\n  position {}\n  program (len() before every third next(), size_hint() otherwise) {}", p.fen(), prog_json(p, prog)), c);
                            if run.report(v) {
                                break;
                            }
                        }
                        blind_nexts += sp.iter().map(|o| o.yielded.len() as u64 + 1).sum::<u64>();
                    }
                    Err(e) => {
                        run.report(Violation::new("C14", "panic", "", format!("program panicked (sporadic len() calls): {e}"), prog_json(p, prog)));
                        break;
                    }
                }
                let obs = match guard::lib(|| execute(&b, prog)) {
                    Ok(o) => o,
                    Err(e) => {
                        run.report(Violation::new("C14", "panic", "", format!("program panicked: {e}"), prog_json(p, prog)));
                        break;
                    }
                };
                match judge(run, p, &legal, prog, &obs) {
                    Ok(t) => tol += t,
                    Err((clause, shape, detail)) => {
                        let v = Violation::new("C14", &clause, &shape, format!("{detail}\n  position {}\n  program {}", p.fen(), prog_json(p, prog)), prog_json(p, prog));
                        if run.report(v) {
                            break;
                        }
                    }
                }
                phases += obs.len() as u64;
                nexts += obs.iter().map(|o| o.yielded.len() as u64 + 1).sum::<u64>();
                lens += obs.iter().map(|o| o.lens.len() as u64).sum::<u64>();
                withrem += (!prog.removals.is_empty()) as u64;
                withep += prog.removals.iter().any(|r| matches!(r, Removal::Move(m) if p.is_ep(*m))) as u64;
            }
            [phases, nexts + blind_nexts, lens, withrem, withep, tol]
        })
        .reduce(|| [0u64; 6], |a, b| [a[0] + b[0], a[1] + b[1], a[2] + b[2], a[3] + b[3], a[4] + b[4], a[5] + b[5]]);
    if run.has_violation() {
        return;
    }
    let [phases, nexts, lens, withrem, withep, tol] = sums;
    nprog.fetch_add(progs.len() as u64, Ordering::Relaxed);
    run.add("programs", progs.len() as u64);
    run.add("phases_iterated", phases);
    run.add("next_calls", nexts);
    run.add("len_reads", lens);
    run.add("programs_with_removal", withrem);
    run.add("programs_with_ep_removal", withep);
    run.add("tolerated_same_source_dest_yields", tol);
    run.states.fetch_add(progs.len() as u64, Ordering::Relaxed);
    run.transitions.fetch_add(nexts + phases, Ordering::Relaxed);
}

pub const RULE: &str = "per position (iterator-specific roots: pawn with push and en-passant capture, two capturers, promoting pawns with 1-3 destinations, in check, double check, many movers; plus curated roots and their children): EVERY program of the form [<=2 removals] then [<=3 mask phases] then a full-mask flush, within the bounds (0 removals: <=3 phases (<=2 on dense positions in quick); 1 removal: <=2 phases; 2 removals: <=1 phase; one removal issued BETWEEN two exhausted phases: [phase][removal][<=1 phase]; one removal issued right AFTER a set_iterator_mask call and before the first next() of that phase (first or second phase); plus the fresh generator iterated without any mask call). Removals range over remove_move of every legal move, two illegal moves, and remove_mask of every partial mask of the alphabet; masks over {enemy men, complement, full, empty, both back ranks, a file, single destination squares (special moves first)}. Every phase is iterated to exhaustion with len() and size_hint() read before every next() and after None; every program is executed a second time WITHOUT any len() / size_hint() call and a third time with len() read only before every third next() (size_hint() in between). Further shapes: an early removal plus a late one with a phase in between; on positions with at most 8 men four mask phases and three removals; the mask alphabet also holds the pair {destination of the first, destination of the last legal move} and the set of all source squares. Per position also the provided Iterator methods (count, last, fold, nth(k) for every k with the rest of the iteration, by_ref().take(k) + rest, skip, step_by) on the fresh generator and under the first masks of the alphabet, compared with plain next() iteration. Oracle: reference remaining-move set (no duplicates, nothing excluded is yielded, everything else under the mask is, len = number still yielded, union = legal minus excluded). states = programs, transitions = next() calls + mask settings. distinct_nontrivial = programs with at least one removal or a partial mask";

pub fn run(tier: Tier) -> i32 {
    let run = Arc::new(Run::new("C14", tier, COUNTERS));
    let mut positions: Vec<RefPos> = ITER_ROOTS.iter().map(|f| RefPos::from_fen(f).expect("machinery: iterator root")).collect();
    let mut extra: Vec<RefPos> = positions.iter().map(|p| p.mirror_v()).collect();
    positions.append(&mut extra);
    let rs = roots();
    let stride = tier.pick(4usize, 1usize);
    for (i, r) in rs.iter().enumerate() {
        if i % stride == 0 {
            positions.push(r.pos);
        }
    }
    if tier == Tier::Thorough {
        // children of the iterator roots
        let kids: Vec<RefPos> = positions.iter().take(2 * ITER_ROOTS.len()).flat_map(|p| p.legal_moves().into_iter().map(move |m| p.apply(m))).collect();
        positions.extend(kids);
    }
    // a stride of the feature-covering roots (rich middlegame positions: many entries, pins, checks)
    let fr = feature_roots();
    positions.extend(fr.iter().step_by(tier.pick(97, 11)).copied());
    let mut seen = BTreeSet::new();
    positions.retain(|p| seen.insert(*p));
    let nprog = AtomicU64::new(0);
    positions.par_iter().for_each(|p| {
        if !run.has_violation() && !run.over_budget() {
            check_position(&run, p, tier, &nprog);
        }
    });
    if run.over_budget() {
        run.cap(format!("wall-clock budget reached: {} of {} positions completed", run.get("positions"), positions.len()));
    }
    run.nontrivial.store(run.get("programs_with_removal") + run.get("phases_iterated") / 3, Ordering::Relaxed);
    if let Some(p) = positions.get(1) {
        let legal = p.legal_moves();
        let progs = programs(p, &legal, tier);
        for k in [progs.len() / 3, progs.len() / 2, progs.len() - 1] {
            run.sample(prog_json(p, &progs[k]));
        }
    }
    run.assume("changing the mask in the middle of a phase (before exhaustion) is outside the property's quantifier and is not exercised");
    run.assume("the boolean returned by remove_move is not judged: the property does not say what it means");
    run.finish("model_checking", RULE, true, json!({"positions_total": positions.len()}))
}

pub fn replay(case: &Value) -> i32 {
    let run = Arc::new(Run::new("C14", Tier::Quick, COUNTERS));
    match prog_parse(case) {
        None => {
            eprintln!("machinery: bad movegen-program case");
            2
        }
        Some((p, prog)) => {
            let b = from_scratch(&p).expect("machinery: replay position");
            let legal = p.legal_moves();
            if case["kind"] == "movegen-adaptor" {
                adaptors(&run, &p, &b, &legal);
                return crate::replay_verdict(&run);
            }
            let observe = case["observe_len"].as_bool().unwrap_or(true);
            let mode = case["observe_mode"].as_u64().map(|m| m as u8).unwrap_or(if observe { 1 } else { 0 });
            match guard::lib(|| execute_obs(&b, &prog, mode)) {
                Ok(obs) => {
                    if let Err((clause, shape, detail)) = judge(&run, &p, &legal, &prog, &obs) {
                        run.report(Violation::new("C14", &clause, &shape, detail, case.clone()));
                    }
                }
                Err(e) => {
                    run.report(Violation::new("C14", "panic", "", e, case.clone()));
                }
            }
            crate::replay_verdict(&run)
        }
    }
}
