//! C08 — the position hash is a pure function of the position (path independence).

use super::common::*;
use crate::bridge::*;
use crate::engine::plan::*;
use crate::engine::posgraph::*;
use crate::guard;
use crate::run::{Run, Tier};
use crate::util::*;
use chess::Board;
use serde_json::{json, Value};
use std::collections::hash_map::DefaultHasher;
use std::hash::{Hash, Hasher};
use std::str::FromStr;
use std::sync::atomic::Ordering;

pub const COUNTERS: &[&str] = &["arrivals_compared_with_from_scratch", "arrivals_through_make_move_in_place", "arrivals_after_null_move", "arrivals_with_ep_state", "fen_rebuilds_compared", "distinct_observable_positions", "repeat_arrivals_same_observable"];

pub struct C08 {
    /// observable position (128-bit fingerprint) -> get_hash()
    pub seen: ShardMap<u128, u64>,
    pub repeated: ShardMap<u128, u8>,
}

fn std_hash(b: &Board) -> u64 {
    let mut h = DefaultHasher::new();
    b.hash(&mut h);
    h.finish()
}

impl C08 {
    fn arrival(&self, run: &Run, s: &St, how: &str) -> Judged {
        let b = s.lib;
        let h = guard::lib(|| b.get_hash()).map_err(|e| Finding::new("panic", "get_hash panicked", e))?;
        let fs = guard::lib(|| from_scratch(&s.key)).map_err(|e| Finding::new("panic", "from-scratch panicked", e))?.map_err(|e| Finding::new("from-scratch", "", format!("builder rejects {}: {e}", s.key.fen())))?;
        let hf = fs.get_hash();
        if h != hf {
            return Err(Finding::new("incremental-hash", how, format!("get_hash() of the board reached {how} is {h:#018x}, the same position built from scratch hashes to {hf:#018x}")));
        }
        // Hash must be consistent with Eq
        if b == fs && std_hash(&b) != std_hash(&fs) {
            return Err(Finding::new("std-hash", how, "two boards equal under == have different std::hash::Hash output".to_string()));
        }
        run.add("arrivals_compared_with_from_scratch", 1);
        run.add("arrivals_after_null_move", (s.nulls > 0) as u64);
        run.add("arrivals_with_ep_state", b.en_passant().is_some() as u64);
        // equal observable position => equal hash, over everything met in this run
        let o = observe(&b);
        let fp = fp128(&o);
        match self.seen.insert_check(fp, h) {
            Seen::Differs(old) => return Err(Finding::new("same-position-two-hashes", how, format!("observable position {} was met before with hash {old:#018x}, now {h:#018x}", o.describe()))),
            Seen::Same => {
                self.repeated.insert_check(fp, 1);
            }
            Seen::New => {}
        }
        Ok(())
    }
}

impl PosOracle for C08 {
    fn id(&self) -> &'static str {
        "C08"
    }
    fn max_nulls(&self) -> u8 {
        2
    }
    fn state(&self, run: &Run, s: &St) -> Judged {
        if s.path.is_none() {
            self.arrival(run, s, "by construction")?;
        }
        // FEN rebuild
        let b = s.lib;
        let txt = guard::lib(|| b.to_string()).map_err(|e| Finding::new("panic", "Display panicked", e))?;
        match guard::lib(|| Board::from_str(&txt)).map_err(|e| Finding::new("panic", "from_str panicked", e))? {
            Ok(r) => {
                if r.get_hash() != b.get_hash() {
                    return Err(Finding::new("fen-rebuild-hash", "", format!("get_hash() changes across to_string/from_str: {txt}")));
                }
                if r == b && std_hash(&r) != std_hash(&b) {
                    return Err(Finding::new("std-hash", "fen rebuild", "equal boards, different std hash".to_string()));
                }
            }
            Err(e) => return Err(Finding::new("fen-rebuild-hash", "own FEN does not parse", format!("{txt}: {e}"))),
        }
        run.add("fen_rebuilds_compared", 1);
        let n = run.states.load(Ordering::Relaxed);
        run.sample_nth(n, 300_007, || json!({"kind": "judged state", "fen": s.key.fen(), "hash": format!("{:#018x}", b.get_hash()), "path": path_vec(&s.path).iter().map(|a| a.name()).collect::<Vec<_>>()}));
        Ok(())
    }
    fn transition(&self, run: &Run, pre: &St, a: &Act, post: &St) -> Judged {
        let how = match a {
            Act::Null => "through a null move",
            Act::Mv(_) => "by moves",
        };
        self.arrival(run, post, how)?;
        // the same arrival through the in-place entry point
        if let Act::Mv(m) = a {
            let src = pre.lib;
            let lm = lmove(*m);
            let out = guard::lib(move || {
                let mut out = Board::default();
                src.make_move(lm, &mut out);
                out
            })
            .map_err(|e| Finding::new("panic", "make_move panicked", e))?;
            if out.get_hash() != post.lib.get_hash() {
                return Err(Finding::new("incremental-hash", "by the in-place make_move", format!("get_hash() after make_move({m}) is {:#018x}, after make_move_new {:#018x}", out.get_hash(), post.lib.get_hash())));
            }
            if out == post.lib && std_hash(&out) != std_hash(&post.lib) {
                return Err(Finding::new("std-hash", "by the in-place make_move", "equal boards, different std hash".to_string()));
            }
            run.add("arrivals_through_make_move_in_place", 1);
            // the same with output boards that already hold a sibling of the source (same placement with another
            // state; same squares with exchanged kinds): whatever the output then holds, its hash must be the hash
            // of exactly that position
            for init in prefill_siblings_of(pre) {
                let out = guard::lib(move || {
                    let mut out = init;
                    src.make_move(lm, &mut out);
                    out
                })
                .map_err(|e| Finding::new("panic", "make_move panicked", e))?;
                let held = unpack(&pack(&observe(&out)));
                let fs = guard::lib(|| from_scratch(&held)).map_err(|e| Finding::new("panic", "from-scratch panicked", e))?;
                match fs {
                    Ok(fs) => {
                        if fs.get_hash() != out.get_hash() {
                            return Err(Finding::new("incremental-hash", "by the in-place make_move into a board that held a sibling of the source", format!("after make_move({m}) into a board holding {} the output holds {} with get_hash() {:#018x}; that position built from scratch hashes to {:#018x}", init, held.fen(), out.get_hash(), fs.get_hash())));
                        }
                    }
                    Err(e) => {
                        return Err(Finding::new("incremental-hash", "the in-place make_move leaves an impossible board", format!("after make_move({m}) into a board holding {} the output holds {}, which cannot be built: {e}", init, held.fen())));
                    }
                }
                run.add("arrivals_through_make_move_in_place", 1);
            }
        }
        Ok(())
    }
}

pub const RULE: &str = "every ARRIVAL (transition, transpositions included; paths through up to 2 null moves; each move applied through make_move_new and through the in-place make_move, the latter into a default board and into every valid sibling of the source: same placement with other rights / en-passant state / side, same squares with two men exchanged) at every state of the bounded trees, families and children: incrementally maintained get_hash() == get_hash() of the same position built from scratch through the builder; a run-wide map observable position -> hash must stay single-valued; get_hash() survives to_string/from_str; boards equal under == have equal std Hash output. distinct_nontrivial = distinct observable positions that were arrived at more than once (transpositions / repeated constructions)";

pub fn run(tier: Tier) -> i32 {
    let (run, oracle) = run_e1("C08", tier, COUNTERS, C08 { seen: ShardMap::new(), repeated: ShardMap::new() }, with_line_geometry(with_ep_slider_positions(standard_plan(tier, 1), tier), true, tier.pick(0, 1)), RULE, &["observable positions are keyed by a 128-bit fingerprint in the single-valuedness map"]);
    let distinct = oracle.seen.len() as u64;
    run.add("distinct_observable_positions", distinct);
    let arrivals = run.get("arrivals_compared_with_from_scratch");
    run.add("repeat_arrivals_same_observable", arrivals.saturating_sub(distinct));
    run.nontrivial.store(oracle.repeated.len() as u64, Ordering::Relaxed);
    finish(&run, RULE)
}
pub fn replay(case: &Value) -> i32 {
    replay_e1("C08", COUNTERS, C08 { seen: ShardMap::new(), repeated: ShardMap::new() }, case)
}
