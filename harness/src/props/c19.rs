//! C19 — CacheTable returns only what was stored under exactly that hash.
//! E2: every operation sequence up to a depth over a small alphabet, against a slot-array model.

use crate::guard;
use crate::run::{Run, Tier, Violation};
use chess::CacheTable;
use rayon::prelude::*;
use serde_json::{json, Value};
use std::cell::RefCell;
use std::collections::BTreeSet;
use std::sync::atomic::{AtomicU64, Ordering};
use std::sync::{Arc, Mutex};

pub const COUNTERS: &[&str] = &["sequences", "operations_replayed", "lookups_compared", "predicate_calls_checked", "distinct_model_states", "constructions_valid", "constructions_invalid", "sizes", "huge_tables"];

#[derive(Clone, Copy, PartialEq, PartialOrd, Debug)]
pub struct Wide(pub u32, pub u64, pub u32);

pub trait Val: Copy + Clone + PartialEq + PartialOrd + std::fmt::Debug + Send + Sync + 'static {
    fn make(i: u8) -> Self;
    fn code(&self) -> u8;
}
impl Val for u8 {
    /// the default (code 0) is deliberately not the all-zero bit pattern
    fn make(i: u8) -> u8 {
        i + 100
    }
    fn code(&self) -> u8 {
        self.wrapping_sub(100)
    }
}
/// A payload whose equality looks at one field only: values 1 and 2 compare equal but differ.
#[derive(Clone, Copy, Debug)]
pub struct Ign(pub u8, pub u8);
impl PartialEq for Ign {
    fn eq(&self, o: &Ign) -> bool {
        self.0 == o.0
    }
}
impl PartialOrd for Ign {
    fn partial_cmp(&self, o: &Ign) -> Option<std::cmp::Ordering> {
        self.0.partial_cmp(&o.0)
    }
}
impl Val for Ign {
    fn make(i: u8) -> Ign {
        match i {
            0 => Ign(3, 0),
            1 => Ign(5, 1),
            _ => Ign(5, 2),
        }
    }
    fn code(&self) -> u8 {
        self.1
    }
}
impl Val for Wide {
    fn make(i: u8) -> Wide {
        Wide(i as u32, 0xAAAA_BBBB_CCCC_0000 + i as u64, 7 * i as u32)
    }
    fn code(&self) -> u8 {
        self.0 as u8
    }
}

#[derive(Clone, Copy, PartialEq, PartialOrd, Debug)]
pub struct Wide40(pub [u64; 5]);
impl Val for Wide40 {
    fn make(i: u8) -> Wide40 {
        Wide40([i as u64, !(i as u64), 0x1111 * i as u64, 7, i as u64])
    }
    fn code(&self) -> u8 {
        self.0[0] as u8
    }
}
/// A float payload: the default is +0.0, value 1 is -0.0 (equal to the default under PartialEq
/// but a different value), value 2 is a NaN (never equal to itself); told apart by their bits.
#[derive(Clone, Copy, PartialEq, PartialOrd, Debug)]
pub struct Fl(pub f64);
impl Val for Fl {
    fn make(i: u8) -> Fl {
        match i {
            0 => Fl(0.0),
            1 => Fl(-0.0),
            _ => Fl(f64::NAN),
        }
    }
    fn code(&self) -> u8 {
        if self.0.is_nan() {
            2
        } else if self.0.to_bits() == (-0.0f64).to_bits() {
            1
        } else if self.0.to_bits() == 0 {
            0
        } else {
            254
        }
    }
}

/// A float payload whose DEFAULT is -0.0: equal to the all-zero pattern under PartialEq, not in its bits.
#[derive(Clone, Copy, PartialEq, PartialOrd, Debug)]
pub struct FlNeg(pub f64);
impl Val for FlNeg {
    fn make(i: u8) -> FlNeg {
        match i {
            0 => FlNeg(-0.0),
            1 => FlNeg(0.0),
            _ => FlNeg(f64::NAN),
        }
    }
    fn code(&self) -> u8 {
        if self.0.is_nan() {
            2
        } else if self.0.to_bits() == (-0.0f64).to_bits() {
            0
        } else if self.0.to_bits() == 0 {
            1
        } else {
            254
        }
    }
}
/// Equality ignores the second field; the default compares equal to the all-zero pattern but is not it.
#[derive(Clone, Copy, Debug)]
pub struct IgnZ(pub u8, pub u8);
impl PartialEq for IgnZ {
    fn eq(&self, o: &IgnZ) -> bool {
        self.0 == o.0
    }
}
impl PartialOrd for IgnZ {
    fn partial_cmp(&self, o: &IgnZ) -> Option<std::cmp::Ordering> {
        self.0.partial_cmp(&o.0)
    }
}
impl Val for IgnZ {
    fn make(i: u8) -> IgnZ {
        match i {
            0 => IgnZ(0, 7),
            1 => IgnZ(5, 1),
            _ => IgnZ(5, 2),
        }
    }
    fn code(&self) -> u8 {
        match self.1 {
            7 => 0,
            1 => 1,
            2 => 2,
            _ => 254,
        }
    }
}

#[derive(Clone, Copy, PartialEq, Eq, Debug)]
pub enum Pred {
    Always,
    Never,
    OldIsDefault,
    OldLessThanNew,
    /// the predicate panics (caught by the caller): it did not say "true", so nothing may be replaced
    Panics,
}
#[derive(Clone, Copy, PartialEq, Eq, Debug)]
pub enum Op {
    Add(u64, u8),
    ReplaceIf(u64, u8, Pred),
    /// a lookup in the middle of a sequence (its answer is compared at once)
    Get(u64),
}
impl Op {
    fn name(&self) -> String {
        match self {
            Op::Add(h, v) => format!("add({h:#x}, {v})"),
            Op::ReplaceIf(h, v, p) => format!("replace_if({h:#x}, {v}, {p:?})"),
            Op::Get(h) => format!("get({h:#x})"),
        }
    }
}

pub fn hash_alphabet(size: usize) -> Vec<u64> {
    let s = size as u64;
    let mut v: Vec<u64> = vec![0, 1, s.wrapping_sub(1), s, s + 1, (1u64 << 32) + 1, 1u64 << 63, u64::MAX, 2 * s + 1];
    v.sort();
    v.dedup();
    // keep at most 6: representatives that collide with each other in a slot and that do not
    let mut keep: Vec<u64> = vec![];
    for h in v {
        if keep.len() < 6 {
            keep.push(h);
        }
    }
    keep
}
pub fn ops_for(size: usize) -> Vec<Op> {
    ops_from(&hash_alphabet(size), false)
}
pub fn ops_from(alphabet: &[u64], with_panics: bool) -> Vec<Op> {
    let mut out = vec![];
    for &h in alphabet.iter() {
        for v in [1u8, 2] {
            out.push(Op::Add(h, v));
            for p in [Pred::Always, Pred::Never, Pred::OldIsDefault, Pred::OldLessThanNew] {
                out.push(Op::ReplaceIf(h, v, p));
            }
        }
        if with_panics {
            out.push(Op::ReplaceIf(h, 1, Pred::Panics));
        }
    }
    out
}

/// Which alphabet hashes share a slot?  The statement does not fix the slot function, so it is
/// observed: h1 and h2 share a slot iff, on a fresh table, add(h1, 1); add(h2, 2) makes get(h1)
/// None.  The relation must be an equivalence with at most `size` classes (more classes than slots
/// would mean a write outside the table).  Returns the class index of every alphabet hash.
pub fn infer_slots<T: Val>(size: usize, alphabet: &[u64]) -> Result<Vec<usize>, String> {
    let n = alphabet.len();
    let mut same = vec![vec![false; n]; n];
    for i in 0..n {
        for j in 0..n {
            if i == j {
                same[i][j] = true;
                continue;
            }
            let mut t: CacheTable<T> = CacheTable::new(size, T::make(0));
            t.add(alphabet[i], T::make(1));
            t.add(alphabet[j], T::make(2));
            match t.get(alphabet[i]).map(|v| v.code()) {
                None => same[i][j] = true,
                Some(1) => same[i][j] = false,
                other => return Err(format!("after add({:#x}, 1); add({:#x}, 2): get({:#x}) = {:?} — neither the value written under that hash nor nothing", alphabet[i], alphabet[j], alphabet[i], other)),
            }
        }
    }
    let mut class = vec![usize::MAX; n];
    let mut k = 0;
    for i in 0..n {
        if class[i] == usize::MAX {
            for j in 0..n {
                if same[i][j] {
                    class[j] = k;
                }
            }
            k += 1;
        }
    }
    for i in 0..n {
        for j in 0..n {
            if same[i][j] != (class[i] == class[j]) || same[i][j] != same[j][i] {
                return Err(format!("slot sharing is not an equivalence relation around hashes {:#x} and {:#x}", alphabet[i], alphabet[j]));
            }
        }
    }
    if k > size {
        return Err(format!("{k} hashes of the alphabet live in pairwise different slots of a table of size {size}: some write went outside the table"));
    }
    Ok(class)
}

/// Replay `seq` on a fresh real table and on the model; compare every lookup after the LAST
/// operation (earlier prefixes are their own cases) and every value handed to a predicate.
/// `slots[i]` is the observed slot class of `alphabet[i]`.
fn run_case<T: Val>(size: usize, seq: &[Op], alphabet: &[u64], slots: &[usize]) -> Result<(Vec<(u64, u8)>, u64, u64), String> {
    let slot_of = |h: u64| -> usize { slots[alphabet.iter().position(|a| *a == h).expect("machinery: hash outside the alphabet")] };
    let mut table: CacheTable<T> = CacheTable::new(size, T::make(0));
    let mut model: Vec<(u64, u8)> = vec![(0, 0); alphabet.len()];
    let mut preds = 0u64;
    for op in seq {
        match *op {
            Op::Add(h, v) => {
                table.add(h, T::make(v));
                model[slot_of(h)] = (h, v);
            }
            Op::Get(h) => {
                let slot = slot_of(h);
                let want = if model[slot].0 == h { Some(model[slot].1) } else { None };
                let got = table.get(h).map(|t: T| t.code());
                if got != want {
                    return Err(format!("get({h:#x}) in mid-sequence = {:?}, the model says {:?} (slot {} holds hash {:#x})", got, want, slot, model[slot].0));
                }
            }
            Op::ReplaceIf(h, v, p) => {
                let slot = slot_of(h);
                let old = model[slot].1;
                let seen: RefCell<Vec<u8>> = RefCell::new(vec![]);
                let newv = T::make(v);
                let dflt = T::make(0);
                let unwound = std::panic::catch_unwind(std::panic::AssertUnwindSafe(|| {
                    table.replace_if(h, newv, |o: T| {
                        seen.borrow_mut().push(o.code());
                        match p {
                            Pred::Always => true,
                            Pred::Never => false,
                            Pred::OldIsDefault => o == dflt,
                            Pred::OldLessThanNew => o < newv,
                            Pred::Panics => std::panic::resume_unwind(Box::new("predicate panics")),
                        }
                    })
                }));
                if unwound.is_err() != (p == Pred::Panics) {
                    return Err(format!("replace_if {} although the predicate {}", if unwound.is_err() { "unwound" } else { "returned" }, if p == Pred::Panics { "panicked" } else { "returned" }));
                }
                let seen = seen.into_inner();
                if seen != vec![old] {
                    return Err(format!("replace_if handed {:?} to the predicate, the slot's current value is {}", seen, old));
                }
                preds += 1;
                let (told, tnew) = (T::make(old), T::make(v));
                let yes = match p {
                    Pred::Always => true,
                    Pred::Never => false,
                    Pred::OldIsDefault => told == dflt,
                    Pred::OldLessThanNew => told < tnew,
                    Pred::Panics => false,
                };
                if yes {
                    model[slot] = (h, v);
                }
            }
        }
    }
    let mut looks = 0;
    for &h in alphabet {
        let slot = slot_of(h);
        let want = if model[slot].0 == h { Some(model[slot].1) } else { None };
        let got = table.get(h).map(|t: T| t.code());
        looks += 1;
        if got != want {
            return Err(format!("get({h:#x}) = {:?}, the model says {:?} (slot {} holds hash {:#x})", got, want, slot, model[slot].0));
        }
    }
    Ok((model, looks, preds))
}

fn crumb(b: &[u8]) -> String {
    format!("CacheTable case {}", String::from_utf8_lossy(b))
}

fn explore<T: Val>(run: &Run, tyname: &'static str, size: usize, depth: usize, states: &Mutex<BTreeSet<Vec<(u64, u8)>>>) {
    explore_with::<T>(run, tyname, size, depth, states, hash_alphabet(size))
}
/// add x 2 values and get over the alphabet (no replace_if): lookups interleaved with writes
pub fn ops_with_gets(alphabet: &[u64]) -> Vec<Op> {
    let mut out = vec![];
    for &h in alphabet {
        out.push(Op::Add(h, 1));
        out.push(Op::Add(h, 2));
        out.push(Op::ReplaceIf(h, 2, Pred::Never));
        out.push(Op::Get(h));
    }
    out
}
pub fn large_alphabet(size: usize) -> Vec<u64> {
    let s = size as u64;
    let mut v = vec![0, 1, s - 1, s, s + 1, 2 * s, s << 20, 1u64 << 41, (1u64 << 41) + 1, (1u64 << 63) | 1, u64::MAX, (1u64 << 41) + s];
    if size >= 64 {
        // slots that differ from slot 0 / 1 in a single middle bit
        v.extend([31, 32, 33, s / 2, s / 2 + 1]);
    }
    v.sort();
    v.dedup();
    v
}
fn explore_with<T: Val>(run: &Run, tyname: &'static str, size: usize, depth: usize, states: &Mutex<BTreeSet<Vec<(u64, u8)>>>, alphabet: Vec<u64>) {
    explore_ops::<T>(run, tyname, size, depth, states, alphabet, false)
}
fn explore_ops<T: Val>(run: &Run, tyname: &'static str, size: usize, depth: usize, states: &Mutex<BTreeSet<Vec<(u64, u8)>>>, alphabet: Vec<u64>, with_panics: bool) {
    let ops = ops_from(&alphabet, with_panics);
    explore_list::<T>(run, tyname, size, depth, states, alphabet, ops)
}
fn explore_list<T: Val>(run: &Run, tyname: &'static str, size: usize, depth: usize, states: &Mutex<BTreeSet<Vec<(u64, u8)>>>, alphabet: Vec<u64>, ops: Vec<Op>) {
    let a2 = alphabet.clone();
    let slots = match guard::lib(move || infer_slots::<T>(size, &a2)) {
        Ok(Ok(s)) => s,
        Ok(Err(e)) | Err(e) => {
            run.report(Violation::new("C19", "slot-sharing", "", format!("T={tyname} size={size}: {e}"), json!({"kind": "cache-slots", "type": tyname, "size": size})));
            return;
        }
    };
    let slots = &slots;
    let seqs = AtomicU64::new(0);
    let opsn = AtomicU64::new(0);
    let looks = AtomicU64::new(0);
    let preds = AtomicU64::new(0);
    // parallel over the first operation, DFS below
    ops.par_iter().for_each(|first| {
        let mut local_states: BTreeSet<Vec<(u64, u8)>> = BTreeSet::new();
        let mut seq = vec![*first];
        fn rec<T: Val>(run: &Run, tyname: &str, size: usize, ops: &[Op], alphabet: &[u64], slots: &[usize], seq: &mut Vec<Op>, depth: usize, acc: &mut (u64, u64, u64, u64), st: &mut BTreeSet<Vec<(u64, u8)>>) {
            if run.has_violation() || run.over_budget() {
                return;
            }
            let desc = format!("T={tyname} size={size} ops={:?}", seq.iter().map(|o| o.name()).collect::<Vec<_>>());
            guard::crumb_raw(crumb, &desc.as_bytes()[..desc.len().min(96)]);
            let s2 = seq.clone();
            match guard::lib(move || run_case::<T>(size, &s2, alphabet, slots)) {
                Ok(Ok((model, l, p))) => {
                    acc.0 += 1;
                    acc.1 += seq.len() as u64;
                    acc.2 += l;
                    acc.3 += p;
                    if st.len() < 100_000 {
                        st.insert(model);
                    }
                }
                Ok(Err(e)) => {
                    run.report(Violation::new("C19", "sequence", if e.contains("predicate") { "predicate argument" } else { "lookup" }, format!("{desc}: {e}"), json!({"kind": "cache", "type": tyname, "size": size, "ops": seq.iter().map(op_json).collect::<Vec<_>>()})));
                    return;
                }
                Err(p) => {
                    run.report(Violation::new("C19", "panic", "", format!("{desc}: panicked: {p}"), json!({"kind": "cache", "type": tyname, "size": size, "ops": seq.iter().map(op_json).collect::<Vec<_>>()})));
                    return;
                }
            }
            if seq.len() < depth {
                for op in ops {
                    seq.push(*op);
                    rec::<T>(run, tyname, size, ops, alphabet, slots, seq, depth, acc, st);
                    seq.pop();
                }
            }
        }
        let mut acc = (0, 0, 0, 0);
        rec::<T>(run, tyname, size, &ops, &alphabet, slots, &mut seq, depth, &mut acc, &mut local_states);
        seqs.fetch_add(acc.0, Ordering::Relaxed);
        opsn.fetch_add(acc.1, Ordering::Relaxed);
        looks.fetch_add(acc.2, Ordering::Relaxed);
        preds.fetch_add(acc.3, Ordering::Relaxed);
        states.lock().unwrap().extend(local_states);
    });
    run.add("sequences", seqs.load(Ordering::Relaxed));
    run.add("operations_replayed", opsn.load(Ordering::Relaxed));
    run.add("lookups_compared", looks.load(Ordering::Relaxed));
    run.add("predicate_calls_checked", preds.load(Ordering::Relaxed));
    run.states.fetch_add(seqs.load(Ordering::Relaxed), Ordering::Relaxed);
    run.transitions.fetch_add(opsn.load(Ordering::Relaxed), Ordering::Relaxed);
}

fn op_json(o: &Op) -> Value {
    match o {
        Op::Add(h, v) => json!({"op": "add", "hash": format!("{h:#x}"), "value": v}),
        Op::ReplaceIf(h, v, p) => json!({"op": "replace_if", "hash": format!("{h:#x}"), "value": v, "pred": format!("{p:?}")}),
        Op::Get(h) => json!({"op": "get", "hash": format!("{h:#x}")}),
    }
}
fn op_parse(v: &Value) -> Option<Op> {
    let h = u64::from_str_radix(v["hash"].as_str()?.trim_start_matches("0x"), 16).ok()?;
    if v["op"] == "get" {
        return Some(Op::Get(h));
    }
    let val = v["value"].as_u64()? as u8;
    match v["op"].as_str()? {
        "add" => Some(Op::Add(h, val)),
        "replace_if" => Some(Op::ReplaceIf(
            h,
            val,
            match v["pred"].as_str()? {
                "Always" => Pred::Always,
                "Never" => Pred::Never,
                "OldIsDefault" => Pred::OldIsDefault,
                "Panics" => Pred::Panics,
                _ => Pred::OldLessThanNew,
            },
        )),
        _ => None,
    }
}

fn constructions(run: &Run) {
    let mut sizes: BTreeSet<usize> = (0..=1025usize).collect();
    for k in 0..=20u32 {
        for d in [-1i64, 0, 1] {
            let v = (1i64 << k) + d;
            if v >= 0 {
                sizes.insert(v as usize);
            }
        }
    }
    for size in sizes {
        guard::crumb_text(&format!("CacheTable::new({size})"));
        let r = guard::lib(|| {
            let t: CacheTable<u8> = CacheTable::new(size, 9);
            // untouched slots behave as (hash 0, default)
            let probes = [0u64, 1, size as u64 - 1, size as u64, u64::MAX];
            probes.iter().map(|&h| (h, t.get(h))).collect::<Vec<_>>()
        });
        let valid = size.count_ones() == 1;
        match (valid, r) {
            (true, Ok(probes)) => {
                for (h, g) in probes {
                    let want = if h == 0 { Some(9u8) } else { None };
                    if g != want {
                        run.report(Violation::new("C19", "fresh-table", "", format!("fresh table of size {size}: get({h:#x}) = {:?}, expected {:?}", g, want), json!({"kind": "cache-new", "size": size})));
                    }
                }
                run.add("constructions_valid", 1);
            }
            (false, Err(_)) => run.add("constructions_invalid", 1),
            (true, Err(e)) => {
                run.report(Violation::new("C19", "construction", "power of two rejected", format!("CacheTable::new({size}) panicked: {e}"), json!({"kind": "cache-new", "size": size})));
            }
            (false, Ok(_)) => {
                run.report(Violation::new("C19", "construction", "non power of two accepted", format!("CacheTable::new({size}) did not panic"), json!({"kind": "cache-new", "size": size})));
            }
        }
    }
}

/// Child process: a table of 2^k entries with the zero-sized payload `()` (8 bytes per entry).
pub fn huge_worker(k: u32) -> i32 {
    let size = 1usize << k;
    let r = guard::lib(move || {
        let mut t: CacheTable<()> = CacheTable::new(size, ());
        let s = size as u64;
        let mut bad: Vec<String> = vec![];
        let mut expect = |what: &str, got: Option<()>, want: Option<()>| {
            if got != want {
                bad.push(format!("{what} = {:?}, expected {:?}", got, want));
            }
        };
        expect("fresh get(0)", t.get(0), Some(()));
        expect("fresh get(1)", t.get(1), None);
        t.add(1, ());
        t.add(2, ());
        t.add(s - 1, ());
        expect("get(1) after add(1), add(2), add(size-1)", t.get(1), Some(()));
        expect("get(2)", t.get(2), Some(()));
        expect("get(size-1)", t.get(s - 1), Some(()));
        expect("get(size+1)", t.get(s + 1), None);
        t.add(s + 1, ());
        expect("get(1) after add(size+1)", t.get(1), None);
        expect("get(size+1)", t.get(s + 1), Some(()));
        expect("get(2) after add(size+1)", t.get(2), Some(()));
        bad
    });
    match r {
        Ok(bad) if bad.is_empty() => println!("HUGE OK"),
        Ok(bad) => println!("HUGE BAD {}", bad.join("; ")),
        Err(e) => println!("HUGE PANIC {e}"),
    }
    0
}

/// Thorough tier: tables of 2^31 and 2^32 entries (16 / 32 GiB) in a child process, when the machine
/// has the memory; index arithmetic narrower than usize shows only there.
fn huge_sizes(run: &Run) {
    let avail_kb: u64 = std::fs::read_to_string("/proc/meminfo").ok().and_then(|t| t.lines().find(|l| l.starts_with("MemAvailable:")).and_then(|l| l.split_whitespace().nth(1).and_then(|v| v.parse().ok()))).unwrap_or(0);
    let exe = match std::env::current_exe() {
        Ok(e) => e,
        Err(_) => return,
    };
    for k in [31u32, 32] {
        let need_kb = (8u64 << k) / 1024;
        if avail_kb < need_kb + need_kb / 4 + 4 * 1024 * 1024 {
            run.cap(format!("table of 2^{k} entries not tried: it needs {} GiB, MemAvailable is {} GiB", need_kb >> 20, avail_kb >> 20));
            continue;
        }
        let out = std::process::Command::new(&exe).args(["C19-huge-worker", &k.to_string()]).output();
        let txt = out.as_ref().map(|o| String::from_utf8_lossy(&o.stdout).to_string()).unwrap_or_default();
        if txt.contains("HUGE OK") {
            run.add("huge_tables", 1);
        } else if let Some(l) = txt.lines().find(|l| l.starts_with("HUGE BAD") || l.starts_with("HUGE PANIC")) {
            let clause = if l.starts_with("HUGE PANIC") { "construction" } else { "sequence" };
            run.report(Violation::new("C19", clause, if clause == "construction" { "power of two rejected" } else { "lookup" }, format!("CacheTable<()> of 2^{k} entries: {l}"), json!({"kind": "cache-huge", "log2_size": k})));
        } else if txt.contains("VIOLATION property=C19") {
            run.report(Violation::new("C19", "panic", "abort", format!("CacheTable<()> of 2^{k} entries: the child aborted inside the library: {}", txt.lines().next().unwrap_or("")), json!({"kind": "cache-huge", "log2_size": k})));
        } else {
            run.cap(format!("table of 2^{k} entries: the child process ended without a verdict ({:?}); not judged", out.map(|o| o.status)));
        }
    }
}

pub const RULE: &str = "E2 over operation sequences: for each table size in {1, 2, 4, 8} and each value type (u8 and a 16-byte struct), EVERY sequence of up to 4 operations (thorough, phase 2, as far as the budget allows and reported in phase2_completed: 5 operations, size 16, one more operation for the other alphabets) over the alphabet {add, replace_if with always / never / old==default / old<new} x 6 hashes (0, 1, size-1, size, size+1, 2^32+1, 2^63, u64::MAX, 2*size+1 reduced to 6: slot-colliding and non-colliding, high-bit) x values {1, 2}; every sequence is replayed on a fresh real table and on a slot-array model (which hashes share a slot is observed on fresh tables, not assumed: the relation must be an equivalence with at most `size` classes); after it get(h) for every alphabet hash and the value handed to every predicate must agree. For sizes 1, 2, 8 the alphabet is extended by replace_if with a predicate that panics (caught by the caller; it never said 'true', so nothing may be replaced) to depth 3. Larger tables (32, 64, 1024, 65536 to depth 2; 2^20 to depth 1) with a 12-hash alphabet (0, 1, size-1, size, size+1, 2*size, size*2^20, 2^41, 2^41+1, 2^41+size, 2^63+1, u64::MAX) and three further value types (40-byte struct; float payload whose default is +0.0, value 1 is -0.0 and value 2 a NaN; a struct whose equality ignores one field), the default never being the all-zero bit pattern; for sizes >= 64 the alphabet also holds 31, 32, 33, size/2, size/2+1 are explored the same way. Lookups interleaved with writes: every sequence of up to 4 operations (5 for size 2) over {add x 2 values, replace_if(never), get} x 6 hashes for sizes 1, 2, 8 (every get is compared at once). Payloads whose default EQUALS the all-zero pattern without being it (-0.0; a struct whose equality ignores a non-zero field) at sizes 1, 64 and in tables of 2^22 and 2^23 entries (64 / 128 MiB). Construction: every size in 0..=1025 and 2^k, 2^k +- 1 for k <= 20 panics iff it is not a power of two, and a fresh table answers as (hash 0, default). Thorough tier: tables of 2^31 and 2^32 entries with a zero-sized payload (16 / 32 GiB), in a child process and only when MemAvailable allows (otherwise reported as a cap): construction, adds and lookups around slot 1, 2, size-1. Out-of-table access aborts loudly in this debug-assertion build. states = sequences (histories), transitions = operations replayed. distinct_nontrivial = distinct model states reached";

pub fn run(tier: Tier) -> i32 {
    let run = Arc::new(Run::new("C19", tier, COUNTERS));
    constructions(&run);
    let states = Mutex::new(BTreeSet::new());
    // phase 1 (both tiers, always complete): the quick bounds
    let depth = 4usize;
    let sizes: Vec<usize> = vec![1, 2, 4, 8];
    for &size in sizes.iter() {
        explore::<u8>(&run, "u8", size, depth, &states);
        explore::<Wide>(&run, "Wide", size, depth, &states);
        run.add("sizes", 1);
    }
    // a predicate that panics (caught by the caller) joins the alphabet at depth 3
    for &size in [1usize, 2, 8].iter() {
        explore_ops::<u8>(&run, "u8", size, 3, &states, hash_alphabet(size), true);
        explore_ops::<Wide>(&run, "Wide", size, 3, &states, hash_alphabet(size), true);
    }
    // larger tables, hashes that differ only above bit 40 or are multiples of the size, further
    // value types (40-byte struct, float payload with a NaN value)
    for &size in [32usize, 64, 1024, 65536].iter() {
        explore_with::<u8>(&run, "u8", size, 2, &states, large_alphabet(size));
        run.add("sizes", 1);
    }
    explore_with::<u8>(&run, "u8", 1 << 20, 1, &states, large_alphabet(1 << 20));
    for &size in [1usize, 4, 64].iter() {
        explore_with::<Wide40>(&run, "Wide40", size, 2, &states, large_alphabet(size));
        explore_with::<Fl>(&run, "Fl", size, 2, &states, large_alphabet(size));
        explore_with::<Ign>(&run, "Ign", size, 2, &states, large_alphabet(size));
    }
    // lookups interleaved with writes: {add x 2, replace_if(never), get} over the 6-hash alphabet to depth 5
    for &size in [1usize, 2, 8].iter() {
        let a = hash_alphabet(size);
        explore_list::<u8>(&run, "u8", size, if size == 2 { 5 } else { 4 }, &states, a.clone(), ops_with_gets(&a));
    }
    // defaults that EQUAL the all-zero pattern without being it (-0.0; a struct whose equality ignores a
    // non-zero field), also in tables of 64 and 128 MiB (allocation fast paths for "zero" defaults)
    for &size in [1usize, 64].iter() {
        explore_with::<FlNeg>(&run, "FlNeg", size, 2, &states, large_alphabet(size));
        explore_with::<IgnZ>(&run, "IgnZ", size, 2, &states, large_alphabet(size));
    }
    for &size in [1usize << 22, 1 << 23].iter() {
        explore_with::<FlNeg>(&run, "FlNeg", size, 1, &states, vec![0, 1, size as u64 - 1, size as u64, size as u64 + 1, 1u64 << 41, u64::MAX]);
        explore_with::<IgnZ>(&run, "IgnZ", size, 1, &states, vec![0, 1, size as u64 - 1, size as u64, size as u64 + 1, 1u64 << 41, u64::MAX]);
        run.add("sizes", 1);
    }
    if run.over_budget() {
        run.cap("wall-clock budget reached during phase 1 of the sequence exploration".to_string());
    }
    let mut deeper_done: Vec<String> = vec![];
    if tier == Tier::Thorough && !run.has_violation() {
        huge_sizes(&run);
        // phase 2: one more operation everywhere, in this order, until the budget is used up
        for &size in [1usize, 4, 64].iter() {
            explore_with::<Wide40>(&run, "Wide40", size, 3, &states, large_alphabet(size));
            explore_with::<Fl>(&run, "Fl", size, 3, &states, large_alphabet(size));
            explore_with::<Ign>(&run, "Ign", size, 3, &states, large_alphabet(size));
            if !run.over_budget() {
                deeper_done.push(format!("value types Wide40/Fl/Ign size {size} depth 3"));
            }
        }
        for &size in [1usize, 2, 8].iter() {
            explore_ops::<u8>(&run, "u8", size, 4, &states, hash_alphabet(size), true);
            if !run.over_budget() {
                deeper_done.push(format!("panicking predicate size {size} depth 4"));
            }
        }
        for &size in [16usize, 1, 2, 4, 8].iter() {
            explore::<u8>(&run, "u8", size, if size == 16 { 4 } else { 5 }, &states);
            if !run.over_budget() {
                deeper_done.push(format!("u8 size {size} depth {}", if size == 16 { 4 } else { 5 }));
            }
        }
        if run.over_budget() {
            run.cap(format!("wall-clock budget reached during phase 2 (deeper bounds); completed there: {:?}", deeper_done));
        }
        run.note("phase2_completed", json!(deeper_done));
    }
    let d = states.lock().unwrap().len() as u64;
    run.add("distinct_model_states", d);
    run.nontrivial.store(d, Ordering::Relaxed);
    run.sample(json!({"kind": "sequence", "size": 4, "ops": ["add(0x5, 1)", "replace_if(0x1, 2, OldLessThanNew)", "add(0x100000001, 2)"], "then": "get(h) for every alphabet hash"}));
    run.sample(json!({"kind": "construction", "size": 1000, "expect": "panic"}));
    run.assume("hashes are drawn from a 6-element alphabet per size, values from {1, 2} over default 0; sequences are bounded by the stated depth");
    run.finish("model_checking", RULE, true, json!({"depth": depth, "sizes": sizes, "ops_per_size": ops_for(4).len()}))
}

pub fn replay(case: &Value) -> i32 {
    let run = Arc::new(Run::new("C19", Tier::Quick, COUNTERS));
    match case["kind"].as_str() {
        Some("cache") => {
            let size = case["size"].as_u64().unwrap_or(1) as usize;
            let ops: Vec<Op> = case["ops"].as_array().cloned().unwrap_or_default().iter().filter_map(op_parse).collect();
            let mut alphabet = hash_alphabet(size);
            for o in ops.iter() {
                let h = match o {
                    Op::Add(h, _) | Op::ReplaceIf(h, _, _) | Op::Get(h) => *h,
                };
                if !alphabet.contains(&h) {
                    alphabet = large_alphabet(size);
                }
            }
            let r = if case["type"] == json!("Wide40") {
                guard::lib(|| infer_slots::<Wide40>(size, &alphabet).and_then(|sl| run_case::<Wide40>(size, &ops, &alphabet, &sl)))
            } else if case["type"] == json!("Ign") {
                guard::lib(|| infer_slots::<Ign>(size, &alphabet).and_then(|sl| run_case::<Ign>(size, &ops, &alphabet, &sl)))
            } else if case["type"] == json!("Fl") {
                guard::lib(|| infer_slots::<Fl>(size, &alphabet).and_then(|sl| run_case::<Fl>(size, &ops, &alphabet, &sl)))
            } else if case["type"] == json!("FlNeg") {
                guard::lib(|| infer_slots::<FlNeg>(size, &alphabet).and_then(|sl| run_case::<FlNeg>(size, &ops, &alphabet, &sl)))
            } else if case["type"] == json!("IgnZ") {
                guard::lib(|| infer_slots::<IgnZ>(size, &alphabet).and_then(|sl| run_case::<IgnZ>(size, &ops, &alphabet, &sl)))
            } else if case["type"] == json!("u8") {
                guard::lib(|| infer_slots::<u8>(size, &alphabet).and_then(|sl| run_case::<u8>(size, &ops, &alphabet, &sl)))
            } else {
                guard::lib(|| infer_slots::<Wide>(size, &alphabet).and_then(|sl| run_case::<Wide>(size, &ops, &alphabet, &sl)))
            };
            match r {
                Ok(Ok(_)) => {}
                Ok(Err(e)) => {
                    run.report(Violation::new("C19", "sequence", "", e, case.clone()));
                }
                Err(e) => {
                    run.report(Violation::new("C19", "panic", "", e, case.clone()));
                }
            }
        }
        Some("cache-slots") => {
            let size = case["size"].as_u64().unwrap_or(1) as usize;
            let alphabet = hash_alphabet(size);
            if let Ok(Err(e)) | Err(e) = guard::lib(|| infer_slots::<u8>(size, &alphabet).map(|_| ())).map(|r| r.map_err(|e| e)) {
                run.report(Violation::new("C19", "slot-sharing", "", e, case.clone()));
            }
        }
        Some("cache-huge") => huge_sizes(&run),
        _ => constructions(&run),
    }
    crate::replay_verdict(&run)
}
