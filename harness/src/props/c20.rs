//! C20 — BitBoard behaves as a set of squares (exhaustive over a structured value set).

use crate::bridge::*;
use crate::guard;
use crate::run::{Run, Tier, Violation};
use chess::{BitBoard, ALL_FILES, ALL_RANKS, EMPTY};
use rayon::prelude::*;
use serde_json::{json, Value};
use std::collections::BTreeSet;
use std::sync::atomic::Ordering;
use std::sync::Arc;

pub const COUNTERS: &[&str] = &["values", "unary_law_checks", "binary_pairs", "binary_law_checks", "single_squares", "supplementary_values", "irregular_value_law_checks", "iterator_protocol_checks", "irregular_pairs"];

fn model(b: u64) -> BTreeSet<u8> {
    (0..64u8).filter(|s| b & (1u64 << s) != 0).collect()
}
fn from_model(s: &BTreeSet<u8>) -> u64 {
    s.iter().fold(0u64, |a, x| a | (1u64 << x))
}

pub fn values() -> Vec<u64> {
    let mut v: BTreeSet<u64> = BTreeSet::new();
    v.insert(0);
    v.insert(!0);
    for a in 0..64 {
        v.insert(1u64 << a);
        for b in (a + 1)..64 {
            v.insert((1u64 << a) | (1u64 << b));
        }
    }
    let base: Vec<u64> = v.iter().copied().collect();
    for x in base {
        v.insert(!x);
    }
    for m in 0..256u64 {
        let mut ranks = 0u64;
        let mut files = 0u64;
        for i in 0..8 {
            if m & (1 << i) != 0 {
                ranks |= 0xFFu64 << (8 * i);
                files |= 0x0101010101010101u64 << i;
            }
        }
        v.insert(ranks);
        v.insert(files);
    }
    for d in -7i8..=7 {
        let mut diag = 0u64;
        let mut anti = 0u64;
        for f in 0..8i8 {
            let r = f + d;
            if (0..8).contains(&r) {
                diag |= 1u64 << (r * 8 + f);
                anti |= 1u64 << (r * 8 + (7 - f));
            }
        }
        v.insert(diag);
        v.insert(anti);
    }
    v.into_iter().collect()
}

fn unary(run: &Run, x: u64) -> u64 {
    let m = model(x);
    let mut n = 0;
    let mut bad = |what: &str, detail: String| {
        run.report(Violation::new("C20", what, "", detail, json!({"kind": "bitboard-unary", "value": format!("{x:#018x}")})));
    };
    let b = BitBoard(x);
    let it: Vec<u8> = b.map(rsq).collect();
    if it != m.iter().copied().collect::<Vec<u8>>() {
        bad("iteration", format!("iterating {x:#018x} yields {:?}", it));
    }
    if b.popcnt() as usize != m.len() || BitBoard::new(x) != b {
        bad("popcnt", format!("popcnt({x:#018x}) = {}", b.popcnt()));
    }
    if let Some(first) = m.iter().next() {
        if rsq(b.to_square()) != *first {
            bad("to-square", format!("to_square({x:#018x}) = {}", b.to_square()));
        }
    }
    if (!b).0 != from_model(&(0..64u8).filter(|s| !m.contains(s)).collect()) || (!&b).0 != (!b).0 {
        bad("complement", format!("!{x:#018x} = {:#018x}", (!b).0));
    }
    // colour reversal flips the ranks
    let flipped: BTreeSet<u8> = m.iter().map(|s| (7 - s / 8) * 8 + s % 8).collect();
    if b.reverse_colors().0 != from_model(&flipped) {
        bad("reverse-colors", format!("reverse_colors({x:#018x}) = {:#018x}", b.reverse_colors().0));
    }
    // Display: 8 lines of 8 cells "X " / ". ", a1 first
    let txt = format!("{}", b);
    let want: String = (0..64u8).map(|s| format!("{}{}", if m.contains(&s) { "X " } else { ". " }, if s % 8 == 7 { "\n" } else { "" })).collect();
    if txt != want {
        bad("display", format!("Display of {x:#018x} is {:?}", txt));
    }
    n += 6;
    n
}

/// The whole iterator protocol, not only next(): every provided method of `Iterator` that an
/// implementation may override must agree with plain iteration over the member set.
fn iter_protocol(run: &Run, x: u64) -> u64 {
    let m: Vec<u8> = model(x).into_iter().collect();
    let b = BitBoard(x);
    let mut n = 0u64;
    let mut bad = |what: &str, detail: String| {
        run.report(Violation::new("C20", "iterator-protocol", what, detail, json!({"kind": "bitboard-iter", "value": format!("{x:#018x}")})));
    };
    // size_hint at every point of the iteration; exhaustion is stable
    let mut it = b;
    for k in 0..=m.len() {
        let (lo, hi) = it.size_hint();
        let left = m.len() - k;
        if lo > left || hi.map(|h| h < left).unwrap_or(false) {
            bad("size_hint", format!("size_hint() of {x:#018x} after {k} items is ({lo}, {:?}) with {left} items left", hi));
        }
        let got = it.next().map(rsq);
        if got != m.get(k).copied() {
            bad("next", format!("item {k} of {x:#018x} is {:?}", got));
        }
    }
    if it.next().is_some() || it.next().is_some() {
        bad("next", format!("{x:#018x} yields items after exhaustion"));
    }
    if b.count() != m.len() || b.last().map(rsq) != m.last().copied() || b.min().map(rsq) != m.first().copied() || b.max().map(rsq) != m.last().copied() {
        bad("count/last/min/max", format!("count / last / min / max of {x:#018x} disagree with its members"));
    }
    {
        let mut seen: Vec<u8> = vec![];
        b.for_each(|s| seen.push(rsq(s)));
        let mut seen2: Vec<u8> = vec![];
        let mut b2 = b;
        let r: Result<(), ()> = b2.try_for_each(|s| {
            seen2.push(rsq(s));
            Ok(())
        });
        if seen != m || seen2 != m || r.is_err() || b.reduce(|a, _| a).map(rsq) != m.first().copied() || b.map(rsq).collect::<Vec<u8>>() != m || b.max_by_key(|s| rsq(*s)).map(rsq) != m.last().copied() || b.min_by_key(|s| rsq(*s)).map(rsq) != m.first().copied() {
            bad("for_each/try_for_each/reduce/collect/max_by_key", format!("a consuming adaptor over {x:#018x} disagrees with its members (for_each visited {:?})", seen));
        }
    }
    if b.fold(0u64, |a, s| a.wrapping_mul(67).wrapping_add(rsq(s) as u64 + 1)) != m.iter().fold(0u64, |a, s| a.wrapping_mul(67).wrapping_add(*s as u64 + 1)) {
        bad("fold", format!("fold over {x:#018x} disagrees with its members"));
    }
    n += 4 + m.len() as u64;
    // nth: every index up to 70, and indices that differ from those only above bit 8 / 16 / 32
    let mut idx: Vec<usize> = (0..=70usize).collect();
    for base in [1usize << 8, 1 << 16, 1 << 32, 1 << 48, 1 << 63, usize::MAX - 70] {
        for d in 0..=70usize {
            idx.push(base.wrapping_add(d));
        }
    }
    idx.push(usize::MAX);
    for &i in idx.iter() {
        let mut it = b;
        let got = it.nth(i).map(rsq);
        let want = m.get(i).copied();
        if got != want {
            bad("nth", format!("{x:#018x}.nth({i}) = {:?}, expected {:?}", got, want));
            break;
        }
        if want.is_some() {
            let rest: Vec<u8> = it.take(70).map(rsq).collect();
            if rest != m[i + 1..] {
                bad("nth", format!("after {x:#018x}.nth({i}) the remaining items are {:?}", rest));
                break;
            }
        } else if it.take(70).count() != 0 {
            bad("nth", format!("after {x:#018x}.nth({i}) = None the iterator still yields items"));
            break;
        }
        n += 1;
    }
    // adaptors built on nth / try_fold: skip, step_by, take, chained
    for k in 0..=9usize {
        let got: Vec<u8> = b.skip(k).take(70).map(rsq).collect();
        if got != m.iter().copied().skip(k).collect::<Vec<u8>>() {
            bad("skip", format!("{x:#018x}.skip({k}) yields {:?}", got));
        }
        if k >= 1 {
            let got: Vec<u8> = b.step_by(k).take(70).map(rsq).collect();
            if got != m.iter().copied().step_by(k).collect::<Vec<u8>>() {
                bad("step_by", format!("{x:#018x}.step_by({k}) yields {:?}", got));
            }
            let got: Vec<u8> = b.skip(1).step_by(k).take(70).map(rsq).collect();
            if got != m.iter().copied().skip(1).step_by(k).collect::<Vec<u8>>() {
                bad("step_by", format!("{x:#018x}.skip(1).step_by({k}) yields {:?}", got));
            }
        }
        n += 3;
    }
    for big in [64usize, 65, 1 << 32, (1 << 32) + 1, usize::MAX] {
        if b.skip(big).take(70).count() != 0 {
            bad("skip", format!("{x:#018x}.skip({big}) yields items"));
        }
        n += 1;
    }
    let (mut b1, mut b2, mut b3, mut b4) = (b, b, b, b);
    if b1.position(|s| rsq(s) >= 32) != m.iter().position(|s| *s >= 32) || b2.find(|s| rsq(*s) % 8 == 7).map(rsq) != m.iter().copied().find(|s| s % 8 == 7) || b3.any(|s| rsq(s) == 63) != m.contains(&63) || b4.all(|s| rsq(s) < 63) == m.contains(&63) {
        bad("position/find/any/all", format!("a searching adaptor over {x:#018x} disagrees with its members"));
    }
    n + 1
}

fn binary(run: &Run, x: u64, y: u64) -> u64 {
    let (a, b) = (BitBoard(x), BitBoard(y));
    let (and, or, xor) = (x & y, x | y, x ^ y);
    let mut ok = true;
    ok &= (a & b).0 == and && (&a & &b).0 == and && (a & &b).0 == and && (&a & b).0 == and;
    ok &= (a | b).0 == or && (&a | &b).0 == or && (a | &b).0 == or && (&a | b).0 == or;
    ok &= (a ^ b).0 == xor && (&a ^ &b).0 == xor && (a ^ &b).0 == xor && (&a ^ b).0 == xor;
    let mut t = a;
    t &= b;
    ok &= t.0 == and;
    let mut t = a;
    t &= &b;
    ok &= t.0 == and;
    let mut t = a;
    t |= b;
    ok &= t.0 == or;
    let mut t = a;
    t |= &b;
    ok &= t.0 == or;
    let mut t = a;
    t ^= b;
    ok &= t.0 == xor;
    let mut t = a;
    t ^= &b;
    ok &= t.0 == xor;
    ok &= (a == b) == (x == y);
    // `*` is not a set operator and its value is not judged; but its four owned / borrowed forms must agree with
    // each other (none may panic where another answers)
    let forms = [guard::lib(|| (a * b).0), guard::lib(|| (&a * &b).0), guard::lib(|| (a * &b).0), guard::lib(|| (&a * b).0)];
    ok &= forms.iter().all(|f| f.is_ok() == forms[0].is_ok() && (f.is_err() || f == &forms[0]));
    if !ok {
        run.report(Violation::new("C20", "binary-operator", "", format!("an operator form on ({x:#018x}, {y:#018x}) is not intersection / union / symmetric difference"), json!({"kind": "bitboard-binary", "a": format!("{x:#018x}"), "b": format!("{y:#018x}")})));
    }
    19
}

fn singles(run: &Run) {
    for s in 0..64u8 {
        let b = BitBoard::from_square(lsq(s));
        let viaset = BitBoard::set(ALL_RANKS[(s / 8) as usize], ALL_FILES[(s % 8) as usize]);
        if b.0 != 1u64 << s || rsq(b.to_square()) != s || viaset != b || BitBoard::from_maybe_square(Some(lsq(s))) != Some(b) {
            run.report(Violation::new("C20", "single-square", "", format!("from_square/to_square/set not inverse at square {s}"), json!({"kind": "bitboard-unary", "value": format!("{:#018x}", 1u64 << s)})));
        }
        run.add("single_squares", 1);
    }
    if BitBoard::from_maybe_square(None).is_some() || EMPTY.0 != 0 {
        run.report(Violation::new("C20", "single-square", "none", "from_maybe_square(None) or EMPTY wrong".into(), json!({"kind": "bitboard-unary", "value": "0x0"})));
    }
}

pub const RULE: &str = "value set V = all boards with at most 2 bits, their complements, all 256 unions of ranks, all 256 unions of files, the 30 diagonals, EMPTY and !EMPTY; unary laws (iteration ascending = members, popcnt, to_square = lowest, complement owned/borrowed, reverse_colors = rank flip, Display shape) on every value; binary laws (& | ^ in all four owned/borrowed combinations, six assigning forms, ==; the four forms of `*` must agree with one another) on ALL pairs of V x V; from_square/to_square/set inverse on 64 squares; irregular values enumerated systematically: every 3- and 4-bit board (unary laws), quarter sweeps (each 16-bit quarter of the board through all 65536 contents under three contexts of the other quarters: unary laws, and binary laws against 12 fixed partners in both operand orders), popcount ladders (k lowest / highest / spread bits for every k); binary laws on ALL ordered pairs of ~2,900 irregular values (strides of the 3-bit boards and the quarter sweeps, ladders, xorshift words, byte-replicated words, rotated runs); eq / cmp / zip / chain / try_fold over two iterators; Default. the iterator PROTOCOL on V, every 3-bit board, the ladders and a stride of the quarter sweeps: size_hint bounds at every point, stable exhaustion, count / last / min / max / fold, nth(i) for every i <= 70 and for i = 2^8, 2^16, 2^32, 2^48, 2^63 (+0..70), usize::MAX-70..=usize::MAX with the remaining items checked afterwards, skip / step_by / skip+step_by for k <= 9, skip(64, 65, 2^32, 2^32+1, usize::MAX), position / find / any / all. Oracle: BTreeSet<u8>. Because the operators are bit-sliced, pairs of <=2-bit boards put every bit position through every (0/1, 0/1) combination. A seeded list of arbitrary 64-bit values is a labelled supplementary sample outside the exhaustive claim. distinct_nontrivial = distinct ordered pairs with both operands non-empty";

pub fn run(tier: Tier) -> i32 {
    let run = Arc::new(Run::new("C20", tier, COUNTERS));
    guard::crumb_text("bitboard laws");
    let v = values();
    run.add("values", v.len() as u64);
    singles(&run);
    let un: u64 = v.par_iter().map(|&x| unary(&run, x)).sum();
    run.add("unary_law_checks", un);
    let second: Vec<u64> = v.clone();
    let pairs = (v.len() * second.len()) as u64;
    let bn: u64 = v.par_iter().map(|&x| second.iter().map(|&y| if run.has_violation() { 0 } else { binary(&run, x, y) }).sum::<u64>()).sum();
    run.add("binary_pairs", pairs);
    run.add("binary_law_checks", bn);
    // irregular values, enumerated systematically: (1) every board with 3 or 4 bits (unary laws);
    // (2) quarter sweeps: each 16-bit quarter of the board runs through ALL 65536 contents while the
    // other three quarters hold one of three contexts (empty, full, a fixed irregular pattern) —
    // any predicate over up to 16 contiguous squares is hit; (3) popcount ladders: for every k in
    // 0..=64 the boards with the k lowest, the k highest and k spread squares set.
    let small: u64 = (0..64u64)
        .into_par_iter()
        .map(|a| {
            let mut n = 0u64;
            for b in (a + 1)..64 {
                for c in (b + 1)..64 {
                    n += unary(&run, (1u64 << a) | (1u64 << b) | (1u64 << c));
                    for d in (c + 1)..64 {
                        n += unary(&run, (1u64 << a) | (1u64 << b) | (1u64 << c) | (1u64 << d));
                    }
                }
            }
            n
        })
        .sum();
    let contexts: [u64; 3] = [0, !0u64, 0x9A3C_51E7_04DB_B62Du64];
    let partners: [u64; 12] = [0, !0u64, 0x9A3C_51E7_04DB_B62D, 0x0F0F_F0F0_3C3C_C3C3, 0x8000_0000_0000_0001, 0x00FF_0000_0000_FF00, 0x1248_8421_1248_8421, 0x5555_5555_AAAA_AAAA, 0xFFFF_FFFF_0000_0000, 0x0000_0001_FFFF_FFFE, 0x7FFF_FFFF_FFFF_FFFF, 0xDEAD_BEEF_0BAD_F00D];
    let sweep: u64 = (0..4u32)
        .into_par_iter()
        .map(|q| {
            let mut n = 0u64;
            let shift = 16 * q;
            let qmask = 0xFFFFu64 << shift;
            for ctx in contexts {
                for v in 0..65536u64 {
                    if run.has_violation() {
                        return n;
                    }
                    let x = (ctx & !qmask) | (v << shift);
                    n += unary(&run, x);
                    for y in partners {
                        n += binary(&run, x, y);
                        n += binary(&run, y, x);
                    }
                }
            }
            n
        })
        .sum();
    let mut ladder = 0u64;
    for k in 0..=64u32 {
        let low = if k == 64 { !0u64 } else { (1u64 << k) - 1 };
        let high = if k == 0 { 0 } else { !0u64 << (64 - k) };
        let mut spread = 0u64;
        for i in 0..k {
            spread |= 1u64 << ((i as u64 * 37) % 64);
        }
        for x in [low, high, spread] {
            ladder += unary(&run, x);
            for y in partners {
                ladder += binary(&run, x, y);
            }
        }
    }
    // the iterator protocol on V, on every 3-bit board, on the popcount ladders and on a stride of the quarter sweeps
    let mut protos: Vec<u64> = v.clone();
    for k in 0..=64u32 {
        protos.push(if k == 64 { !0u64 } else { (1u64 << k) - 1 });
        protos.push(if k == 0 { 0 } else { !0u64 << (64 - k) });
    }
    for q in 0..4u32 {
        for val in (0..65536u64).step_by(7) {
            protos.push(val << (16 * q));
            protos.push(!(val << (16 * q)));
        }
    }
    for a in 0..64u64 {
        for b in (a + 1)..64 {
            for c in (b + 1)..64 {
                protos.push((1u64 << a) | (1u64 << b) | (1u64 << c));
            }
        }
    }
    let proto: u64 = protos.par_iter().map(|&x| if run.has_violation() { 0 } else { iter_protocol(&run, x) }).sum();
    run.add("iterator_protocol_checks", proto);
    // irregular x irregular: ALL ordered pairs of a set of ~2,900 irregular values (a stride of the 3-bit boards,
    // of each quarter sweep under each context, the ladders, xorshift words, shifted runs, byte-replicated words)
    let mut irr: Vec<u64> = vec![];
    {
        let mut k = 0u64;
        for a in 0..64u64 {
            for b in (a + 1)..64 {
                for c in (b + 1)..64 {
                    k += 1;
                    if k % 83 == 0 {
                        irr.push((1u64 << a) | (1u64 << b) | (1u64 << c));
                        irr.push(!((1u64 << a) | (1u64 << b) | (1u64 << c)));
                    }
                }
            }
        }
        for q in 0..4u32 {
            for ctx in contexts {
                for val in (0..65536u64).step_by(401) {
                    let qmask = 0xFFFFu64 << (16 * q);
                    irr.push((ctx & !qmask) | (val << (16 * q)));
                }
            }
        }
        for k in 0..=64u32 {
            irr.push(if k == 64 { !0u64 } else { (1u64 << k) - 1 });
            irr.push(if k == 0 { 0 } else { !0u64 << (64 - k) });
        }
        let mut x = 0x2545_F491_4F6C_DD1Du64;
        for _ in 0..400 {
            x ^= x << 13;
            x ^= x >> 7;
            x ^= x << 17;
            irr.push(x);
        }
        for b in 0..=255u64 {
            irr.push(b * 0x0101_0101_0101_0101);
        }
        for len in [2u32, 3, 5, 9, 17, 31, 33] {
            for sh in (0..64u32).step_by(3) {
                irr.push((((1u128 << len) - 1) as u64).rotate_left(sh));
            }
        }
        irr.sort();
        irr.dedup();
    }
    let irr_pairs: u64 = irr.par_iter().map(|&x| irr.iter().map(|&y| if run.has_violation() { 0 } else { binary(&run, x, y) }).sum::<u64>()).sum();
    run.add("irregular_pairs", (irr.len() * irr.len()) as u64);
    // comparison adaptors over two iterators, and Default
    for w in irr.windows(2).step_by(7) {
        let (a, b) = (BitBoard(w[0]), BitBoard(w[1]));
        let (ma, mb): (Vec<u8>, Vec<u8>) = (model(w[0]).into_iter().collect(), model(w[1]).into_iter().collect());
        let ok = a.map(rsq).eq(ma.iter().copied()) && a.map(rsq).cmp(b.map(rsq)) == ma.cmp(&mb) && a.zip(b).count() == ma.len().min(mb.len()) && a.chain(b).map(rsq).collect::<Vec<u8>>() == ma.iter().chain(mb.iter()).copied().collect::<Vec<u8>>() && a.map(rsq).try_fold(0u64, |acc, s| acc.checked_add(s as u64)) == Some(ma.iter().map(|s| *s as u64).sum::<u64>());
        if !ok {
            run.report(Violation::new("C20", "iterator-protocol", "eq / cmp / zip / chain / try_fold", format!("a comparison or combining adaptor over {:#018x} and {:#018x} disagrees with their members", w[0], w[1]), json!({"kind": "bitboard-binary", "a": format!("{:#018x}", w[0]), "b": format!("{:#018x}", w[1])})));
        }
    }
    if BitBoard::default().0 != 0 {
        run.report(Violation::new("C20", "default", "", "BitBoard::default() is not the empty set".into(), json!({"kind": "bitboard-unary", "value": "0x0000000000000000"})));
    }
    run.add("irregular_value_law_checks", small + sweep + ladder + irr_pairs);
    // supplementary sample (labelled): xorshift values from the seed
    let mut s = run.seed ^ 0x9E3779B97F4A7C15;
    let mut supp = vec![];
    for _ in 0..2000 {
        s ^= s << 13;
        s ^= s >> 7;
        s ^= s << 17;
        supp.push(s);
    }
    for w in supp.windows(2) {
        unary(&run, w[0]);
        binary(&run, w[0], w[1]);
    }
    run.add("supplementary_values", supp.len() as u64);
    run.evaluations.store(un + bn + 64 + small + sweep + ladder, Ordering::Relaxed);
    let nonempty = v.iter().filter(|x| **x != 0).count() as u64;
    run.nontrivial.store(nonempty * second.iter().filter(|x| **x != 0).count() as u64, Ordering::Relaxed);
    run.sample(json!({"kind": "pair", "a": format!("{:#018x}", v[5]), "b": format!("{:#018x}", v[v.len() / 2]), "laws": "& | ^ in 4 ownership forms, 6 assigning forms, =="}));
    run.sample(json!({"kind": "value", "value": format!("{:#018x}", v[v.len() / 3]), "laws": "iteration, popcnt, to_square, complement, reverse_colors, Display"}));
    run.assume("the algebraic laws are checked on the structured value set, not on all 2^64 values; the operators are bitwise, so every bit position and every pair of positions is exercised in every input combination");
    run.finish("exploration", RULE, true, json!({"pairs_rule": "V x V"}))
}
pub fn replay(case: &Value) -> i32 {
    let run = Arc::new(Run::new("C20", Tier::Quick, COUNTERS));
    let p = |k: &str| u64::from_str_radix(case[k].as_str().unwrap_or("0x0").trim_start_matches("0x"), 16).unwrap_or(0);
    match case["kind"].as_str() {
        Some("bitboard-iter") => {
            iter_protocol(&run, p("value"));
        }
        Some("bitboard-unary") => {
            singles(&run);
            unary(&run, p("value"));
        }
        _ => {
            binary(&run, p("a"), p("b"));
        }
    }
    crate::replay_verdict(&run)
}
