//! C04 — status is Checkmate / Stalemate / Ongoing exactly as the rules define.

use super::common::*;
use crate::engine::plan::*;
use crate::engine::posgraph::*;
use crate::guard;
use crate::refmodel::*;
use crate::run::{Run, Tier};
use crate::universe::*;
use chess::{BoardStatus, Game, GameResult};
use serde_json::{json, Value};
use std::sync::atomic::Ordering;

pub const COUNTERS: &[&str] = &["checkmates", "stalemates", "ongoing_in_check", "ongoing_one_legal_move", "game_results_checked"];

pub struct C04;

impl PosOracle for C04 {
    fn id(&self) -> &'static str {
        "C04"
    }
    fn state(&self, run: &Run, s: &St) -> Judged {
        let p = &s.key;
        let b = s.lib;
        let ms = p.legal_moves();
        let chk = p.in_check();
        let want = match (ms.is_empty(), chk) {
            (true, true) => BoardStatus::Checkmate,
            (true, false) => BoardStatus::Stalemate,
            _ => BoardStatus::Ongoing,
        };
        let got = guard::lib(|| b.status()).map_err(|e| Finding::new("panic", "status panicked", e))?;
        if got != want {
            return Err(Finding::new("status", format!("{:?} reported as {:?}", want, got), format!("status() = {:?}, rules say {:?} (in check: {}, legal moves: {})", got, want, chk, ms.len())));
        }
        if want != BoardStatus::Ongoing || s.path.is_none() {
            let res = guard::lib(|| Game::new_with_board(b).result()).map_err(|e| Finding::new("panic", "Game::result panicked", e))?;
            let wantr = match want {
                BoardStatus::Checkmate => Some(if p.stm == Col::W { GameResult::BlackCheckmates } else { GameResult::WhiteCheckmates }),
                BoardStatus::Stalemate => Some(GameResult::Stalemate),
                BoardStatus::Ongoing => None,
            };
            if res != wantr {
                return Err(Finding::new("game-result", format!("{:?}", want), format!("Game::result() = {:?}, expected {:?}", res, wantr)));
            }
            run.add("game_results_checked", 1);
        }
        run.add("checkmates", (want == BoardStatus::Checkmate) as u64);
        run.add("stalemates", (want == BoardStatus::Stalemate) as u64);
        run.add("ongoing_in_check", (want == BoardStatus::Ongoing && chk) as u64);
        run.add("ongoing_one_legal_move", (ms.len() == 1) as u64);
        if want != BoardStatus::Ongoing || chk || ms.len() == 1 {
            run.nontrivial.fetch_add(1, Ordering::Relaxed);
        }
        if want != BoardStatus::Ongoing {
            let n = run.get("checkmates") + run.get("stalemates");
            run.sample_nth(n, 20_011, || json!({"kind": "terminal state", "fen": p.fen(), "status": format!("{:?}", want)}));
        }
        Ok(())
    }
}

pub const RULE: &str = "states = all valid 3-man positions (complete), the reachable closure (fixpoint, no depth bound) of KRK (quick) plus KQK and KPK-with-promotions (thorough), the bounded trees below the curated roots (mate-in-one / stalemate-in-one neighbourhoods included), the en-passant / castling / promotion families with children, complete 4-man sets (thorough), and constructions around boxed kings — every bare-king mate / stalemate of the 3-man sets with one pinned man and its pinner added at distance <= 2 in every direction (all kinds), with two such pins on different lines (corner kings), and with an en-passant pattern of the boxed side (pawn, double-pushed enemy pawn, optional blocker of the push square, optional slider on the capture diagonal), and with a two-capturer en-passant pattern (pushed pawn between two pawns of the boxed side, push squares free or blocked, one enemy slider anywhere: either capturer pinned or not); and the complete set of positions of K+X+P v K+p with mutually blocked pawns in which the side owning X has at most one legal move (mates, stalemates and only-move positions with immobile men of the side to move); each judged: status() against (reference in-check, reference has-a-legal-move); Game::result() on every terminal and every initial state. distinct_nontrivial = judged states that are checkmate, stalemate, in check, or have exactly one legal move";

pub fn run(tier: Tier) -> i32 {
    let mut plan = standard_plan(tier, 1);
    if tier == Tier::Quick {
        plan.families.push((Box::new(EpFamily { extra: Extra::EnemySlider, pre_push: false }), 0));
        plan.families.push((Box::new(EpTwoFamily { extra: Extra::EnemySlider, pre_push: false }), 0));
    }
    plan.closures.push(krk_closure());
    if tier == Tier::Thorough {
        plan.closures.push(kqk_closure());
        plan.closures.push(kpk_closure());
        plan.families.push((Box::new(MenFamily { men: vec![(Kind::Q, Col::W), (Kind::P, Col::B)], with_dp: false }), 1));
    }
    // constructions around boxed kings: every bare-king mate / stalemate of the 3-man sets, with
    // pinned men (one; thorough and corner kings: two on different lines) or an en-passant pattern
    let bases = bare_king_terminals();
    let corner: Vec<RefPos> = bases.iter().copied().filter(|p| matches!(p.king_sq(p.stm), Some(0) | Some(7) | Some(56) | Some(63))).collect();
    plan.families.push((Box::new(PinnedTerminalFamily { bases: bases.clone(), specs: pin_specs(), two: false }), 0));
    plan.families.push((Box::new(PinnedTerminalFamily { bases: if tier == Tier::Quick { corner.iter().copied().step_by(8).collect() } else { corner.clone() }, specs: pin_specs(), two: true }), 0));
    plan.families.push((Box::new(EpTerminalFamily { bases: bases.clone() }), 0));
    plan.families.push((Box::new(EpTerminalTwoFamily { bases: bases.clone() }), 0));
    let mut plan = with_line_geometry(plan, true, tier.pick(0, 1));
    plan.families.push((Box::new(blocked_pawn_terminals()), 0));
    let (run, _) = run_e1("C04", tier, COUNTERS, C04, plan, RULE, &[]);
    finish(&run, RULE)
}
pub fn replay(case: &Value) -> i32 {
    replay_e1("C04", COUNTERS, C04, case)
}
