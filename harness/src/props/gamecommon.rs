//! Shared by C10 and C11: lock-step execution of one operation on the library's Game and on the
//! reference automaton, with the judgement of return value and of all observers afterwards.

use crate::bridge::*;
use crate::guard;
use crate::refmodel::*;
use chess::{Action, Color, Game, GameResult};
use serde_json::{json, Value};

#[derive(Clone, Copy, PartialEq, Eq, Debug)]
pub enum GOp {
    Move(RMove),
    Offer(Col),
    Accept,
    Declare,
    Resign(Col),
}
impl GOp {
    pub fn name(&self) -> String {
        match self {
            GOp::Move(m) => m.uci(),
            GOp::Offer(c) => format!("offer_draw({:?})", c),
            GOp::Accept => "accept_draw".into(),
            GOp::Declare => "declare_draw".into(),
            GOp::Resign(c) => format!("resign({:?})", c),
        }
    }
    pub fn parse(s: &str) -> Option<GOp> {
        Some(match s {
            "offer_draw(W)" => GOp::Offer(Col::W),
            "offer_draw(B)" => GOp::Offer(Col::B),
            "accept_draw" => GOp::Accept,
            "declare_draw" => GOp::Declare,
            "resign(W)" => GOp::Resign(Col::W),
            "resign(B)" => GOp::Resign(Col::B),
            _ => GOp::Move(RMove::parse_uci(s)?),
        })
    }
    pub fn action(&self) -> RAction {
        match self {
            GOp::Move(m) => RAction::Move(*m),
            GOp::Offer(c) => RAction::Offer(*c),
            GOp::Accept => RAction::Accept,
            GOp::Declare => RAction::Declare,
            GOp::Resign(c) => RAction::Resign(*c),
        }
    }
}
pub fn lib_action(a: &RAction) -> Action {
    match a {
        RAction::Move(m) => Action::MakeMove(lmove(*m)),
        RAction::Offer(c) => Action::OfferDraw(lcol(*c)),
        RAction::Accept => Action::AcceptDraw,
        RAction::Declare => Action::DeclareDraw,
        RAction::Resign(c) => Action::Resign(lcol(*c)),
    }
}
pub fn lib_result(r: Option<RResult>) -> Option<GameResult> {
    r.map(|r| match r {
        RResult::WhiteCheckmates => GameResult::WhiteCheckmates,
        RResult::WhiteResigns => GameResult::WhiteResigns,
        RResult::BlackCheckmates => GameResult::BlackCheckmates,
        RResult::BlackResigns => GameResult::BlackResigns,
        RResult::Stalemate => GameResult::Stalemate,
        RResult::DrawAccepted => GameResult::DrawAccepted,
        RResult::DrawDeclared => GameResult::DrawDeclared,
    })
}

pub struct Fail {
    pub clause: &'static str,
    pub shape: String,
    pub detail: String,
}
fn fail(clause: &'static str, shape: impl Into<String>, detail: impl Into<String>) -> Fail {
    Fail { clause, shape: shape.into(), detail: detail.into() }
}

pub struct StepInfo {
    pub accepted: bool,
    pub tolerated: Option<&'static str>,
}

fn apply(g: &mut Game, op: &GOp) -> bool {
    match op {
        GOp::Move(m) => g.make_move(lmove(*m)),
        GOp::Offer(c) => g.offer_draw(lcol(*c)),
        GOp::Accept => g.accept_draw(),
        GOp::Declare => g.declare_draw(),
        GOp::Resign(c) => g.resign(lcol(*c)),
    }
}

/// Check every observer of the library game against the reference game.
pub fn observers(refg: &RefGame, lib: &Game, judge_claim: bool) -> Result<Option<&'static str>, Fail> {
    let want_log: Vec<Action> = refg.log.iter().map(lib_action).collect();
    let l2 = lib.clone();
    let (acts, res, pos, stm, can) = guard::lib(move || (l2.actions().clone(), l2.result(), l2.current_position(), l2.side_to_move(), l2.can_declare_draw())).map_err(|e| fail("panic", "observer panicked", e))?;
    if acts != want_log {
        return Err(fail("action-log", "", format!("actions() = {:?}, accepted actions are {:?}", acts, want_log)));
    }
    let p = refg.position();
    let o = observe(&pos);
    if !same_placement_side_rights(&o, &p) {
        return Err(fail("current-position", "", format!("current_position() = {}, start position advanced by the accepted moves is {}", o.describe(), p.fen())));
    }
    if stm != lcol(p.stm) {
        return Err(fail("side-to-move", "", format!("side_to_move() = {:?}, expected {:?}", stm, p.stm)));
    }
    let want_res = lib_result(refg.result());
    if res != want_res {
        return Err(fail("result", format!("{:?} reported as {:?}", want_res, res), format!("result() = {:?}, expected {:?}", res, want_res)));
    }
    let mut tol = None;
    if judge_claim {
        match refg.claimable() {
            Tri::Yes if !can => {
                let why = if refg.halfmove_clock() >= 100 { "fifty-move rule" } else { "threefold repetition" };
                return Err(fail("can-declare-draw", format!("claim refused: {why}"), format!("can_declare_draw() = false, but a draw can be claimed ({why}: clock {}, repetitions {:?})", refg.halfmove_clock(), refg.repetitions())));
            }
            Tri::No if can => {
                return Err(fail("can-declare-draw", if refg.result().is_some() { "claim allowed in a finished game" } else { "claim allowed without repetition or fifty moves" }, format!("can_declare_draw() = true, but clock is {} and repetitions are {:?}, result {:?}", refg.halfmove_clock(), refg.repetitions(), refg.result())));
            }
            Tri::Either => tol = Some("T3: repetition count differs between the strict and the loose en-passant reading"),
            _ => {}
        }
    }
    Ok(tol)
}

/// One lock-step operation.  On success the reference log has been extended iff the library
/// accepted the operation.
pub fn step(refg: &mut RefGame, lib: &mut Game, op: &GOp) -> Result<StepInfo, Fail> {
    let res0 = refg.result();
    let claim0 = refg.claimable();
    let legal0 = match op {
        GOp::Move(m) => refg.position().legal_moves().contains(m),
        _ => false,
    };
    let acceptable0 = refg.acceptable();
    let mut l2 = lib.clone();
    let op2 = *op;
    let (ret, after) = guard::lib(move || {
        let r = apply(&mut l2, &op2);
        (r, l2)
    })
    .map_err(|e| fail("panic", format!("{} panicked", op_kind(op)), e))?;
    let mut tolerated = None;
    if res0.is_some() {
        if ret {
            return Err(fail("post-result-accepted", format!("{} accepted after {:?}", op_kind(op), res0.unwrap()), format!("{} returned true although the game already has result {:?}", op.name(), res0)));
        }
    } else {
        match op {
            GOp::Move(_) => {
                if ret != legal0 {
                    return Err(fail(if ret { "illegal-move-accepted" } else { "legal-move-refused" }, "", format!("make_move({}) returned {}, the move is {} in {}", op.name(), ret, if legal0 { "legal" } else { "not legal" }, refg.position().fen())));
                }
            }
            GOp::Offer(_) | GOp::Resign(_) => {
                if !ret {
                    tolerated = Some("offer/resign refused in an open game (return value not fixed by the statement)");
                }
            }
            GOp::Accept => {
                if ret && !acceptable0 {
                    return Err(fail("accept-without-offer", "", format!("accept_draw() returned true, but the log {:?} ends neither with an offer nor with a move whose mover offered just before", refg.log)));
                }
                if !ret && acceptable0 {
                    tolerated = Some("accept refused although an offer is pending (statement only says 'only if')");
                }
            }
            GOp::Declare => match claim0 {
                Tri::Yes if !ret => {
                    let why = if refg.halfmove_clock() >= 100 { "fifty-move rule" } else { "threefold repetition" };
                    return Err(fail("declare-refused", format!("claim refused: {why}"), format!("declare_draw() returned false although a draw can be claimed ({why})")));
                }
                Tri::No if ret => return Err(fail("declare-accepted", "", "declare_draw() returned true without threefold repetition or fifty moves".to_string())),
                Tri::Either => tolerated = Some("T3: repetition count differs between the strict and the loose en-passant reading"),
                _ => {}
            },
        }
    }
    if ret {
        refg.log.push(op.action());
    }
    *lib = after;
    if let Some(t) = observers(refg, lib, true)? {
        tolerated = tolerated.or(Some(t));
    }
    Ok(StepInfo { accepted: ret, tolerated })
}
pub fn op_kind(op: &GOp) -> &'static str {
    match op {
        GOp::Move(_) => "make_move",
        GOp::Offer(_) => "offer_draw",
        GOp::Accept => "accept_draw",
        GOp::Declare => "declare_draw",
        GOp::Resign(_) => "resign",
    }
}

pub fn case_json(start: &RefPos, ops: &[GOp]) -> Value {
    json!({"kind": "game", "start": start.fen(), "ops": ops.iter().map(|o| o.name()).collect::<Vec<_>>()})
}
pub fn new_game(start: &RefPos) -> Result<Game, String> {
    let b = from_scratch(start)?;
    Ok(Game::new_with_board(b))
}

/// Replay a recorded operation list without the explorer; returns the first failure.
pub fn replay_ops(case: &Value) -> Result<Option<(Fail, Vec<GOp>)>, String> {
    let start = RefPos::from_fen(case["start"].as_str().ok_or("case.start missing")?)?;
    let ops: Vec<GOp> = case["ops"].as_array().ok_or("case.ops missing")?.iter().map(|s| GOp::parse(s.as_str().unwrap_or("")).ok_or_else(|| format!("bad op {s}"))).collect::<Result<_, _>>()?;
    let mut refg = RefGame::new(start);
    let mut lib = new_game(&start)?;
    if let Err(f) = observers(&refg, &lib, true) {
        return Ok(Some((f, vec![])));
    }
    for (i, op) in ops.iter().enumerate() {
        if let Err(f) = step(&mut refg, &mut lib, op) {
            return Ok(Some((f, ops[..=i].to_vec())));
        }
    }
    Ok(None)
}
#[allow(dead_code)]
pub fn white() -> Color {
    Color::White
}
