//! C16 — board geometry tables and square arithmetic are exact (complete enumeration).

use crate::bridge::*;
use crate::guard;
use crate::refmodel::*;
use crate::run::{Run, Tier, Violation};
use chess::{BitBoard, Color, File, Rank, Square, ALL_FILES, ALL_RANKS, ALL_SQUARES, EDGES};
use serde_json::{json, Value};
use std::sync::atomic::Ordering;
use std::sync::Arc;

pub const COUNTERS: &[&str] = &["between_pairs", "between_nonempty", "line_pairs", "line_nonempty", "line_same_square_not_judged", "leaper_squares", "ray_squares", "pawn_cases", "pawn_double_steps_allowed", "pawn_double_steps_blocked", "rank_file_sets", "step_helper_calls", "step_helper_edge_cases", "square_bijection", "large_index_calls", "ordered_call_pairs", "fresh_process_first_calls"];

fn set(v: impl IntoIterator<Item = (i8, i8)>) -> u64 {
    let mut b = 0u64;
    for (f, r) in v {
        if on_board(f, r) {
            b |= 1u64 << sq(f, r);
        }
    }
    b
}
fn aligned(a: Sq, b: Sq) -> Option<(i8, i8)> {
    let (df, dr) = (file_of(b) - file_of(a), rank_of(b) - rank_of(a));
    if a == b {
        None
    } else if df == 0 || dr == 0 || df.abs() == dr.abs() {
        Some((df.signum(), dr.signum()))
    } else {
        None
    }
}
fn ref_between(a: Sq, b: Sq) -> u64 {
    match aligned(a, b) {
        None => 0,
        Some((sf, sr)) => {
            let mut out = 0u64;
            let (mut f, mut r) = (file_of(a) + sf, rank_of(a) + sr);
            while sq(f, r) != b {
                out |= 1u64 << sq(f, r);
                f += sf;
                r += sr;
            }
            out
        }
    }
}
fn ref_line(a: Sq, b: Sq) -> u64 {
    match aligned(a, b) {
        None => 0,
        Some((sf, sr)) => {
            let mut out = 1u64 << a;
            for dir in [1i8, -1] {
                let (mut f, mut r) = (file_of(a) + dir * sf, rank_of(a) + dir * sr);
                while on_board(f, r) {
                    out |= 1u64 << sq(f, r);
                    f += dir * sf;
                    r += dir * sr;
                }
            }
            out
        }
    }
}
fn ray_set(s: Sq, dirs: &[(i8, i8)]) -> u64 {
    let mut out = 0u64;
    for &(df, dr) in dirs {
        let (mut f, mut r) = (file_of(s) + df, rank_of(s) + dr);
        while on_board(f, r) {
            out |= 1u64 << sq(f, r);
            f += df;
            r += dr;
        }
    }
    out
}

fn fail(run: &Run, clause: &str, shape: &str, detail: String, case: Value) {
    run.report(Violation::new("C16", clause, shape, detail, case));
}
fn sqn(s: Sq) -> String {
    sq_name(s)
}
fn bbs(b: u64) -> Vec<String> {
    (0..64u8).filter(|s| b & (1 << s) != 0).map(sq_name).collect()
}

pub fn check_all(run: &Run) {
    check_all_opts(run, false)
}
/// `light`: without the in-process ordered-pair sweep of line / between (used by the child processes)
pub fn check_all_opts(run: &Run, light: bool) {
    let ev = |n: u64| {
        run.evaluations.fetch_add(n, Ordering::Relaxed);
    };
    // between / line on all 4096 pairs
    for a in 0..64u8 {
        for b in 0..64u8 {
            guard::crumb_text(&format!("between/line({}, {})", sqn(a), sqn(b)));
            let got = guard::lib(|| chess::between(lsq(a), lsq(b)).0);
            let want = ref_between(a, b);
            if got != Ok(want) {
                fail(run, "between", if a == b { "same square" } else if aligned(a, b).is_some() { "aligned pair" } else { "unaligned pair" }, format!("between({}, {}) = {:?}, expected {:?}", sqn(a), sqn(b), got.map(bbs), bbs(want)), json!({"kind": "geometry", "fn": "between", "a": sqn(a), "b": sqn(b)}));
            }
            run.add("between_pairs", 1);
            run.add("between_nonempty", (want != 0) as u64);
            if a == b {
                run.add("line_same_square_not_judged", 1);
            } else {
                let got = guard::lib(|| chess::line(lsq(a), lsq(b)).0);
                let want = ref_line(a, b);
                if got != Ok(want) {
                    fail(run, "line", if aligned(a, b).is_some() { "aligned pair" } else { "unaligned pair" }, format!("line({}, {}) = {:?}, expected {:?}", sqn(a), sqn(b), got.map(bbs), bbs(want)), json!({"kind": "geometry", "fn": "line", "a": sqn(a), "b": sqn(b)}));
                }
                run.add("line_pairs", 1);
                run.add("line_nonempty", (want != 0) as u64);
            }
            ev(2);
        }
    }
    // leapers and rays
    let knight: [(i8, i8); 8] = [(1, 2), (2, 1), (2, -1), (1, -2), (-1, -2), (-2, -1), (-2, 1), (-1, 2)];
    let king: [(i8, i8); 8] = [(1, 0), (1, 1), (0, 1), (-1, 1), (-1, 0), (-1, -1), (0, -1), (1, -1)];
    for s in 0..64u8 {
        let (f, r) = (file_of(s), rank_of(s));
        let cases: [(&str, Result<u64, String>, u64); 4] = [
            ("get_king_moves", guard::lib(|| chess::get_king_moves(lsq(s)).0), set(king.iter().map(|d| (f + d.0, r + d.1)))),
            ("get_knight_moves", guard::lib(|| chess::get_knight_moves(lsq(s)).0), set(knight.iter().map(|d| (f + d.0, r + d.1)))),
            ("get_rook_rays", guard::lib(|| chess::get_rook_rays(lsq(s)).0), ray_set(s, &[(1, 0), (-1, 0), (0, 1), (0, -1)])),
            ("get_bishop_rays", guard::lib(|| chess::get_bishop_rays(lsq(s)).0), ray_set(s, &[(1, 1), (1, -1), (-1, 1), (-1, -1)])),
        ];
        for (name, got, want) in cases {
            if got != Ok(want) {
                fail(run, name, "", format!("{}({}) = {:?}, expected {:?}", name, sqn(s), got.map(bbs), bbs(want)), json!({"kind": "geometry", "fn": name, "a": sqn(s)}));
            }
            ev(1);
        }
        run.add("leaper_squares", 2);
        run.add("ray_squares", 2);
    }
    // pawns: every occupancy of the two push squares and two capture squares x noise catalogue
    for s in 0..64u8 {
        for c in [Col::W, Col::B] {
            let (f, r) = (file_of(s), rank_of(s));
            let d = c.dir();
            let rel: [(i8, i8); 4] = [(f, r + d), (f, r + 2 * d), (f - 1, r + d), (f + 1, r + d)];
            let relevant: u64 = set(rel.iter().copied());
            let mut noises: Vec<u64> = vec![0, !relevant, 0xAA55AA55AA55AA55 & !relevant, 0x55AA55AA55AA55AA & !relevant, (1u64 << s) & !relevant];
            // every single irrelevant square and every pair of irrelevant squares (the pawn's own
            // square and the square behind it included)
            let irr: Vec<u8> = (0..64u8).filter(|q| relevant & (1u64 << q) == 0).collect();
            for (i, a) in irr.iter().enumerate() {
                noises.push(1u64 << a);
                for b in irr.iter().skip(i + 1) {
                    noises.push((1u64 << a) | (1u64 << b));
                }
            }
            // population ladders: the k lowest, k highest and k spread irrelevant squares for every k
            for k in 0..=irr.len() {
                let low = irr.iter().take(k).fold(0u64, |a, q| a | (1u64 << q));
                let high = irr.iter().rev().take(k).fold(0u64, |a, q| a | (1u64 << q));
                let spread = (0..k).fold(0u64, |a, i| a | (1u64 << irr[(i * 37) % irr.len()]));
                noises.extend([low, high, spread]);
            }
            // every triple of irrelevant squares in the pawn's neighbourhood (distance <= 2)
            let near: Vec<u8> = irr.iter().copied().filter(|q| (file_of(*q) - f).abs() <= 2 && (rank_of(*q) - r).abs() <= 2).collect();
            for (i, a) in near.iter().enumerate() {
                for (j, b) in near.iter().enumerate().skip(i + 1) {
                    for c in near.iter().skip(j + 1) {
                        noises.push((1u64 << a) | (1u64 << b) | (1u64 << c));
                    }
                }
            }
            if light {
                // child processes: the five base patterns only
                noises.truncate(5);
            }
            for occ_bits in 0..16u32 {
                let mut occ = 0u64;
                for (i, &(ff, rr)) in rel.iter().enumerate() {
                    if occ_bits & (1 << i) != 0 && on_board(ff, rr) {
                        occ |= 1u64 << sq(ff, rr);
                    }
                }
                for &noise in noises.iter() {
                    let blockers = occ | noise;
                    let has = |ff: i8, rr: i8| on_board(ff, rr) && blockers & (1u64 << sq(ff, rr)) != 0;
                    let want_att = set([(f - 1, r + d), (f + 1, r + d)].into_iter().filter(|&(ff, rr)| has(ff, rr)));
                    let mut want_q = 0u64;
                    if on_board(f, r + d) && !has(f, r + d) {
                        want_q |= 1u64 << sq(f, r + d);
                        if r == c.pawn_rank() && !has(f, r + 2 * d) {
                            want_q |= 1u64 << sq(f, r + 2 * d);
                            run.add("pawn_double_steps_allowed", 1);
                        } else if r == c.pawn_rank() {
                            run.add("pawn_double_steps_blocked", 1);
                        }
                    } else if r == c.pawn_rank() {
                        run.add("pawn_double_steps_blocked", 1);
                    }
                    guard::crumb_text(&format!("pawn tables sq={} colour={:?} blockers={:#x}", sqn(s), c, blockers));
                    let bb = BitBoard(blockers);
                    let got = guard::lib(|| (chess::get_pawn_attacks(lsq(s), lcol(c), bb).0, chess::get_pawn_quiets(lsq(s), lcol(c), bb).0, chess::get_pawn_moves(lsq(s), lcol(c), bb).0));
                    let want = (want_att, want_q, want_att | want_q);
                    if got != Ok(want) {
                        let which = match &got {
                            Ok(g) if g.0 != want.0 => "get_pawn_attacks",
                            Ok(g) if g.1 != want.1 => "get_pawn_quiets",
                            _ => "get_pawn_moves",
                        };
                        fail(run, which, if r == c.pawn_rank() { "pawn on its starting rank" } else { "pawn elsewhere" }, format!("{:?} pawn on {} with blockers {:?}: (attacks, quiets, moves) = {:?}, expected {:?}", c, sqn(s), bbs(blockers), got.map(|g| (bbs(g.0), bbs(g.1), bbs(g.2))), (bbs(want.0), bbs(want.1), bbs(want.2))), json!({"kind": "geometry", "fn": which, "a": sqn(s), "colour": format!("{:?}", c), "blockers": blockers}));
                    }
                    run.add("pawn_cases", 1);
                    ev(3);
                }
            }
        }
    }
    // ranks, files, adjacent files, edges
    for i in 0..8i8 {
        let got = guard::lib(|| (chess::get_rank(ALL_RANKS[i as usize]).0, chess::get_file(ALL_FILES[i as usize]).0, chess::get_adjacent_files(ALL_FILES[i as usize]).0));
        let want = (set((0..8).map(|f| (f, i))), set((0..8).map(|r| (i, r))), set((0..8).flat_map(|r| [(i - 1, r), (i + 1, r)])));
        if got != Ok(want) {
            fail(run, "rank-file-sets", "", format!("get_rank/get_file/get_adjacent_files({}) = {:?}, expected {:?}", i, got, want), json!({"kind": "geometry", "fn": "rank-file-sets", "index": i}));
        }
        run.add("rank_file_sets", 3);
        ev(3);
        // Rank / File helpers (wrapping)
        let (rk, fl) = (ALL_RANKS[i as usize], ALL_FILES[i as usize]);
        let ok = rk.to_index() == i as usize
            && fl.to_index() == i as usize
            && rk.up().to_index() == ((i + 1) % 8) as usize
            && rk.down().to_index() == ((i + 7) % 8) as usize
            && fl.right().to_index() == ((i + 1) % 8) as usize
            && fl.left().to_index() == ((i + 7) % 8) as usize
            && (0..64usize).all(|k| Rank::from_index(k).to_index() == k % 8 && File::from_index(k).to_index() == k % 8);
        if !ok {
            fail(run, "rank-file-helpers", "", format!("Rank/File index or wrapping step helpers wrong at index {i}"), json!({"kind": "geometry", "fn": "rank-file-helpers", "index": i}));
        }
        run.add("step_helper_calls", 6);
        ev(6);
    }
    let edges = set((0..8).flat_map(|i| [(i, 0), (i, 7), (0, i), (7, i)]));
    if EDGES.0 != edges {
        fail(run, "edges", "", format!("EDGES = {:?}", bbs(EDGES.0)), json!({"kind": "geometry", "fn": "edges"}));
    }
    ev(1);
    // square stepping helpers and the (rank, file) bijection
    for s in 0..64u8 {
        let (f, r) = (file_of(s), rank_of(s));
        let l = lsq(s);
        let opt = |ff: i8, rr: i8| if on_board(ff, rr) { Some(sq(ff, rr)) } else { None };
        let wrap = |ff: i8, rr: i8| sq((ff + 8) % 8, (rr + 8) % 8);
        let o = |x: Option<Square>| x.map(rsq);
        let checks: Vec<(&str, Option<Sq>, Option<Sq>)> = vec![
            ("up", o(l.up()), opt(f, r + 1)),
            ("down", o(l.down()), opt(f, r - 1)),
            ("left", o(l.left()), opt(f - 1, r)),
            ("right", o(l.right()), opt(f + 1, r)),
            ("forward(White)", o(l.forward(Color::White)), opt(f, r + 1)),
            ("forward(Black)", o(l.forward(Color::Black)), opt(f, r - 1)),
            ("backward(White)", o(l.backward(Color::White)), opt(f, r - 1)),
            ("backward(Black)", o(l.backward(Color::Black)), opt(f, r + 1)),
            ("uup", Some(rsq(l.uup())), Some(wrap(f, r + 1))),
            ("udown", Some(rsq(l.udown())), Some(wrap(f, r - 1))),
            ("uleft", Some(rsq(l.uleft())), Some(wrap(f - 1, r))),
            ("uright", Some(rsq(l.uright())), Some(wrap(f + 1, r))),
            ("uforward(White)", Some(rsq(l.uforward(Color::White))), Some(wrap(f, r + 1))),
            ("uforward(Black)", Some(rsq(l.uforward(Color::Black))), Some(wrap(f, r - 1))),
            ("ubackward(White)", Some(rsq(l.ubackward(Color::White))), Some(wrap(f, r - 1))),
            ("ubackward(Black)", Some(rsq(l.ubackward(Color::Black))), Some(wrap(f, r + 1))),
        ];
        for (name, got, want) in checks {
            if got != want {
                fail(run, "step-helper", name, format!("Square::{}() on {} = {:?}, expected {:?}", name, sqn(s), got.map(sqn), want.map(sqn)), json!({"kind": "geometry", "fn": name, "a": sqn(s)}));
            }
            run.add("step_helper_calls", 1);
            run.add("step_helper_edge_cases", (want.is_none() || (f == 0 || f == 7 || r == 0 || r == 7)) as u64);
            ev(1);
        }
        let ok = l.get_rank().to_index() == r as usize
            && l.get_file().to_index() == f as usize
            && Square::make_square(ALL_RANKS[r as usize], ALL_FILES[f as usize]) == l
            && l.to_index() == s as usize
            && l.to_int() == s
            && ALL_SQUARES[s as usize] == l
            && Square::new(s + 64) == l
            && Square::new(s + 128) == l
            && Square::new(s + 192) == l;
        if !ok {
            fail(run, "square-bijection", "", format!("make_square/get_rank/get_file/to_index/ALL_SQUARES inconsistent at {}", sqn(s)), json!({"kind": "geometry", "fn": "bijection", "a": sqn(s)}));
        }
        run.add("square_bijection", 1);
        ev(1);
    }
    // Rank / File from_index far beyond the table: "if i > 7, wrap around" must hold for every usize;
    // catalogue: 0..=4096, every 2^k + d and 2^k - d (k <= 63, d <= 16), usize::MAX - d, and multiples of
    // odd constants
    {
        let mut idx: Vec<usize> = (0..=4096usize).collect();
        for k in 3..64u32 {
            for d in 0..=16usize {
                idx.push((1usize << k).wrapping_add(d));
                idx.push((1usize << k).wrapping_sub(d));
            }
        }
        for d in 0..=64usize {
            idx.push(usize::MAX - d);
            idx.push((usize::MAX / 2).wrapping_add(d));
            idx.push((usize::MAX / 2) - d);
            idx.push(0x9E37_79B9_7F4A_7C15usize.wrapping_mul(d + 1));
        }
        for i in idx {
            guard::crumb_text(&format!("Rank/File::from_index({i})"));
            let r = guard::lib(|| Rank::from_index(i).to_index());
            let f = guard::lib(|| File::from_index(i).to_index());
            if r != Ok(i % 8) || f != Ok(i % 8) {
                fail(run, "rank-file-helpers", "from_index beyond 7 must wrap", format!("Rank::from_index({i}) = {:?}, File::from_index({i}) = {:?}, expected index {}", r, f, i % 8), json!({"kind": "geometry", "fn": "from_index", "index": i.to_string()}));
            }
            run.add("large_index_calls", 2);
            ev(2);
        }
    }
    // call-order independence: the functions are pure, so an earlier call (with ANY argument, also the
    // not-judged line(a, a)) must not change a later answer.  Every ordered pair (first call, second call)
    // over the complete 64x64 domain of between and line: the first call's answer is ignored, the second
    // is compared with the definition.
    for (name, f) in [("line", chess::line as fn(Square, Square) -> BitBoard), ("between", chess::between as fn(Square, Square) -> BitBoard)] {
        if light {
            break;
        }
        for a in 0..64u8 {
            for b in 0..64u8 {
                guard::crumb_text(&format!("{name}({}, {}) as the earlier call", sqn(a), sqn(b)));
                let _ = guard::lib(|| f(lsq(a), lsq(b)).0);
                // all later calls that share a square or a line with the first one, plus a spread
                for c in 0..64u8 {
                    for d in 0..64u8 {
                        if c == d && name == "line" {
                            continue;
                        }
                        let got = f(lsq(c), lsq(d)).0;
                        let want = if name == "line" { ref_line(c, d) } else { ref_between(c, d) };
                        if got != want {
                            fail(run, name, "answer depends on an earlier call", format!("{name}({}, {}) = {:?} after the call {name}({}, {}), expected {:?}", sqn(c), sqn(d), bbs(got), sqn(a), sqn(b), bbs(want)), json!({"kind": "geometry", "fn": name, "a": sqn(c), "b": sqn(d), "after": [sqn(a), sqn(b)]}));
                            return;
                        }
                    }
                }
                run.add("ordered_call_pairs", 4096);
                ev(4096);
            }
        }
    }
    if Square::default() != lsq(0) {
        fail(run, "square-bijection", "default", "Square::default() is not a1".into(), json!({"kind": "geometry", "fn": "default"}));
    }
}

/// Child process: ONE earlier call in a fresh process (all lazily built or cached state of the
/// library is in its initial state), then the complete domain as later calls.
/// First calls of the OTHER geometry functions (index k): after one of them, in a fresh process, the whole
/// enumeration of the module must still hold.
pub fn other_first_calls() -> Vec<(String, Box<dyn Fn() + Send + Sync>)> {
    let mut v: Vec<(String, Box<dyn Fn() + Send + Sync>)> = vec![];
    for s in 0..64u8 {
        v.push((format!("get_king_moves({})", sqn(s)), Box::new(move || { let _ = chess::get_king_moves(lsq(s)); })));
        v.push((format!("get_knight_moves({})", sqn(s)), Box::new(move || { let _ = chess::get_knight_moves(lsq(s)); })));
        v.push((format!("get_rook_rays({})", sqn(s)), Box::new(move || { let _ = chess::get_rook_rays(lsq(s)); })));
        v.push((format!("get_bishop_rays({})", sqn(s)), Box::new(move || { let _ = chess::get_bishop_rays(lsq(s)); })));
        for c in [Color::White, Color::Black] {
            v.push((format!("get_pawn_attacks({}, {:?}, all)", sqn(s), c), Box::new(move || { let _ = chess::get_pawn_attacks(lsq(s), c, !chess::EMPTY); })));
            v.push((format!("get_pawn_quiets({}, {:?}, none)", sqn(s), c), Box::new(move || { let _ = chess::get_pawn_quiets(lsq(s), c, chess::EMPTY); })));
            v.push((format!("get_pawn_moves({}, {:?}, all)", sqn(s), c), Box::new(move || { let _ = chess::get_pawn_moves(lsq(s), c, !chess::EMPTY); })));
        }
    }
    for i in 0..8usize {
        v.push((format!("get_rank(#{i})"), Box::new(move || { let _ = chess::get_rank(ALL_RANKS[i]); })));
        v.push((format!("get_file(#{i})"), Box::new(move || { let _ = chess::get_file(ALL_FILES[i]); })));
        v.push((format!("get_adjacent_files(#{i})"), Box::new(move || { let _ = chess::get_adjacent_files(ALL_FILES[i]); })));
    }
    v
}

pub fn first_call_worker(name: &str, a: u8, b: u8) -> i32 {
    if name == "other" {
        let k = a as usize * 64 + b as usize;
        let calls = other_first_calls();
        if let Some((_, f)) = calls.get(k) {
            let _ = guard::lib(|| f());
        }
        let run = Run::new("C16", Tier::Quick, COUNTERS);
        check_all_opts(&run, true);
        println!("{}", if run.has_violation() { "MISMATCH the complete enumeration fails afterwards" } else { "OK" });
        return 0;
    }
    let base = name.trim_end_matches(|c| c == '2' || c == 'T');
    let f = if base == "line" { chess::line as fn(Square, Square) -> BitBoard } else { chess::between as fn(Square, Square) -> BitBoard };
    if name.ends_with('2') {
        // two degenerate first calls
        let _ = guard::lib(|| f(lsq(a), lsq(a)).0);
        let _ = guard::lib(|| f(lsq(b), lsq(b)).0);
    } else if name.ends_with('T') {
        // the first call is made on another thread
        let _ = std::thread::spawn(move || guard::lib(|| f(lsq(a), lsq(b)).0)).join();
    } else {
        let _ = guard::lib(|| f(lsq(a), lsq(b)).0);
    }
    let name = base;
    for c in 0..64u8 {
        for d in 0..64u8 {
            if c == d && name == "line" {
                continue;
            }
            let got = guard::lib(|| f(lsq(c), lsq(d)).0);
            let want = if name == "line" { ref_line(c, d) } else { ref_between(c, d) };
            if got != Ok(want) {
                println!("MISMATCH {} {} {:?} {:?}", sqn(c), sqn(d), got.map(bbs), bbs(want));
                return 0;
            }
        }
    }
    println!("OK");
    0
}

/// Every first call of line / between (4096 each, line(a, a) included) in its own fresh process.
pub fn fresh_process_first_calls(run: &Run, only: Option<(&str, u8, u8)>) {
    use rayon::prelude::*;
    let exe = match std::env::current_exe() {
        Ok(e) => e,
        Err(e) => {
            eprintln!("MACHINERY FAILURE: current_exe: {e}");
            std::process::exit(2);
        }
    };
    let mut jobs: Vec<(&str, u8, u8)> = vec![];
    match only {
        Some(j) => jobs.push(j),
        None => {
            for name in ["line", "between"] {
                for a in 0..64u8 {
                    for b in 0..64u8 {
                        jobs.push((name, a, b));
                    }
                }
            }
            // two degenerate first calls f(a, a), f(b, b); the first call made on another thread
            for (n2, nt) in [("line2", "lineT"), ("between2", "betweenT")] {
                for a in 0..64u8 {
                    for b in [(a + 1) % 64, (a + 8) % 64, (a + 9) % 64, 63 - a] {
                        jobs.push((n2, a, b));
                    }
                    jobs.push((nt, a, a));
                    jobs.push((nt, a, (a + 9) % 64));
                }
            }
            // one first call of every other geometry function, then the whole enumeration
            for k in 0..other_first_calls().len() {
                jobs.push(("other", (k / 64) as u8, (k % 64) as u8));
            }
        }
    }
    jobs.par_iter().for_each(|(name, a, b)| {
        if run.has_violation() {
            return;
        }
        let out = std::process::Command::new(&exe).args(["C16-first-call-worker", name, &a.to_string(), &b.to_string()]).output();
        match out {
            Ok(o) if o.status.success() => {
                let txt = String::from_utf8_lossy(&o.stdout);
                if let Some(l) = txt.lines().find(|l| l.starts_with("MISMATCH")) {
                    let w: Vec<&str> = l.splitn(4, ' ').collect();
                    let first = if *name == "other" { other_first_calls().get(*a as usize * 64 + *b as usize).map(|x| x.0.clone()).unwrap_or_default() } else if name.ends_with('2') { format!("{0}({1}, {1}) and {0}({2}, {2})", name.trim_end_matches('2'), sqn(*a), sqn(*b)) } else if name.ends_with('T') { format!("{}({}, {}) on another thread", name.trim_end_matches('T'), sqn(*a), sqn(*b)) } else { format!("{name}({}, {})", sqn(*a), sqn(*b)) };
                    fail(run, name.trim_end_matches(|c| c == '2' || c == 'T'), "answer depends on the first call(s) made in the process", format!("in a fresh process, after {first}: {}", w[1..].join(" ")), json!({"kind": "first-call", "fn": name, "a": a, "b": b}));
                } else if !txt.contains("OK") {
                    eprintln!("MACHINERY FAILURE: first-call worker printed neither OK nor MISMATCH: {txt}");
                    std::process::exit(2);
                }
                run.add("fresh_process_first_calls", 1);
                run.evaluations.fetch_add(4096, Ordering::Relaxed);
            }
            Ok(o) => {
                // the child died: a non-unwinding panic inside the library prints a VIOLATION line itself
                let txt = String::from_utf8_lossy(&o.stdout);
                if txt.contains("VIOLATION") {
                    fail(run, name, "abort in a fresh process", format!("in a fresh process, {name}({}, {}) then the complete domain: {}", sqn(*a), sqn(*b), txt.lines().next().unwrap_or("")), json!({"kind": "first-call", "fn": name, "a": a, "b": b}));
                } else {
                    eprintln!("MACHINERY FAILURE: first-call worker exited with {:?}: {}", o.status, String::from_utf8_lossy(&o.stderr));
                    std::process::exit(2);
                }
            }
            Err(e) => {
                eprintln!("MACHINERY FAILURE: cannot start the first-call worker: {e}");
                std::process::exit(2);
            }
        }
    });
}

pub const RULE: &str = "complete enumeration: between and line on all 64x64 pairs (line(a,a) is not judged: the statement defines line only for two squares); king, knight moves and rook, bishop rays on 64 squares; pawn attacks / quiets / moves on 64 squares x 2 colours x all 16 occupancies of the two push and two capture squares x noise on the irrelevant squares (none, all, two checkerboards, every single irrelevant square, every pair of irrelevant squares, population ladders (k lowest / highest / spread irrelevant squares for every k), every triple of irrelevant squares within distance 2 of the pawn); rank, file, adjacent-file sets and EDGES; all 16 square stepping helpers on 64 squares; Rank/File wrapping helpers; make_square/get_rank/get_file bijection; Rank/File::from_index on a catalogue of large indices (0..=4096, 2^k +- d for every k <= 63, usize::MAX - d); call-order independence of line and between: every ordered pair of calls over the complete 64x64 domain (16.7 M pairs each; the earlier call may be the not-judged line(a, a)), in process, and again with each of the 2 x 4096 possible FIRST calls made in a fresh child process (initial state of every lazily built table or cache) followed by the complete domain; also two degenerate first calls f(a, a), f(b, b) for b = a+1, a+8, a+9, 63-a, the first call made on another thread, and one first call of every OTHER geometry function (king, knight, rays, pawn attacks / quiets / moves, rank, file, adjacent files: ~1,180 calls) followed by the enumeration of the module (pawn noise reduced to its five base patterns there); Square::new on all 256 byte values. Oracle: definitions on integer (file, rank) coordinates. distinct_nontrivial = cases whose expected answer is a non-empty set or an edge case (None / wrap)";

pub fn run(tier: Tier) -> i32 {
    let run = Arc::new(Run::new("C16", tier, COUNTERS));
    check_all(&run);
    if !run.has_violation() {
        fresh_process_first_calls(&run, None);
    }
    let nt = run.get("between_nonempty") + run.get("line_nonempty") + run.get("pawn_double_steps_allowed") + run.get("pawn_double_steps_blocked") + run.get("step_helper_edge_cases") + 256;
    run.nontrivial.store(nt, Ordering::Relaxed);
    run.sample(json!({"kind": "pair", "call": "between(a1, h8)", "expected": bbs(ref_between(0, 63))}));
    run.sample(json!({"kind": "pair", "call": "line(c2, e4)", "expected": bbs(ref_line(10, 28))}));
    run.sample(json!({"kind": "pawn", "call": "get_pawn_quiets(e2, White, {e4})", "expected": ["e3"]}));
    run.assume("the noise on squares irrelevant to a pawn is a catalogue (none, all, checkerboards, all singles, all pairs), not all 2^60 subsets");
    run.finish("exploration", RULE, true, json!({}))
}
pub fn replay(case: &Value) -> i32 {
    // the whole domain is enumerated in well under a second: replay = run it all again
    let run = Arc::new(Run::new("C16", Tier::Quick, COUNTERS));
    if case["kind"] == "first-call" {
        let name: &str = match case["fn"].as_str().unwrap_or("") { "line" => "line", "line2" => "line2", "lineT" => "lineT", "between2" => "between2", "betweenT" => "betweenT", "other" => "other", _ => "between" };
        fresh_process_first_calls(&run, Some((name, case["a"].as_u64().unwrap_or(0) as u8, case["b"].as_u64().unwrap_or(0) as u8)));
        return crate::replay_verdict(&run);
    }
    check_all(&run);
    crate::replay_verdict(&run)
}
