pub mod c01;
