//! C06 — FEN output is standard and round-trips; standard FEN input is understood.

use super::common::*;
use crate::bridge::*;
use crate::engine::plan::*;
use crate::engine::posgraph::*;
use crate::guard;
use crate::refmodel::*;
use crate::run::{Run, Tier};
use chess::{Board, BoardBuilder, Color};
use serde_json::{json, Value};
use std::str::FromStr;
use std::sync::atomic::Ordering;

pub const COUNTERS: &[&str] = &["renderings_checked", "ep_field_required", "ep_field_optional_present", "ep_field_optional_absent", "ep_field_must_be_dash", "standard_fen_parsed", "builder_variants_round_tripped", "partial_rights_states", "black_to_move_states"];

pub struct C06;

fn ep_square_for(file: i8, stm: Col) -> String {
    // the square the pawn of the side NOT to move passed over
    format!("{}{}", (b'a' + file as u8) as char, if stm == Col::W { '6' } else { '3' })
}

fn check_builder(bb: &BoardBuilder, what: &str) -> Judged {
    let txt = guard::lib(|| format!("{}", bb)).map_err(|e| Finding::new("panic", "builder Display panicked", e))?;
    let f: Vec<&str> = txt.split(' ').collect();
    if f.len() != 6 || f.iter().any(|x| x.is_empty()) {
        return Err(Finding::new("builder-shape", what, format!("builder renders '{txt}': not six single-space separated fields")));
    }
    let stm = rcol(bb.get_side_to_move());
    let want_ep = match bb.get_en_passant() {
        None => "-".to_string(),
        Some(s) => ep_square_for(file_of(rsq(s)), stm),
    };
    if f[3] != want_ep {
        return Err(Finding::new("ep-field", "rendered as the pawn's square (rank 4/5) instead of the passed-over square (rank 3/6)", format!("{what}: builder renders '{txt}'; en-passant field should be {want_ep}")));
    }
    let back = guard::lib(|| BoardBuilder::from_str(&txt)).map_err(|e| Finding::new("panic", "builder from_str panicked", e))?.map_err(|e| Finding::new("builder-round-trip", what, format!("builder text '{txt}' does not parse: {e}")))?;
    for s in 0..64u8 {
        if back[lsq(s)] != bb[lsq(s)] {
            return Err(Finding::new("builder-round-trip", what, format!("builder text '{txt}' re-parses with a different man on {}", sq_name(s))));
        }
    }
    if back.get_side_to_move() != bb.get_side_to_move() || back.get_castle_rights(Color::White) != bb.get_castle_rights(Color::White) || back.get_castle_rights(Color::Black) != bb.get_castle_rights(Color::Black) || back.get_en_passant() != bb.get_en_passant() {
        return Err(Finding::new("builder-round-trip", what, format!("builder text '{txt}' re-parses with different side / rights / en passant")));
    }
    Ok(())
}

impl PosOracle for C06 {
    fn id(&self) -> &'static str {
        "C06"
    }
    fn state(&self, run: &Run, s: &St) -> Judged {
        let p = &s.key;
        let b = s.lib;
        let txt = guard::lib(|| format!("{}", b)).map_err(|e| Finding::new("panic", "Display panicked", e))?;
        let f: Vec<&str> = txt.split(' ').collect();
        if f.len() != 6 || f.iter().any(|x| x.is_empty()) {
            return Err(Finding::new("shape", "", format!("'{txt}' is not six single-space separated fields")));
        }
        if f[0] != p.placement_field() {
            return Err(Finding::new("placement-field", "", format!("'{}' should be '{}'", f[0], p.placement_field())));
        }
        if f[1] != if p.stm == Col::W { "w" } else { "b" } {
            return Err(Finding::new("side-field", "", format!("'{}' for {:?} to move", f[1], p.stm)));
        }
        if f[2] != p.castle_field() {
            return Err(Finding::new("castling-field", "", format!("'{}' should be '{}'", f[2], p.castle_field())));
        }
        if f[4].parse::<u32>().is_err() || !f[5].parse::<u32>().map(|v| v >= 1).unwrap_or(false) {
            return Err(Finding::new("clock-fields", "", format!("'{} {}' are not a non-negative and a positive integer", f[4], f[5])));
        }
        let target = p.ep_target().map(sq_name);
        if p.dp < 0 {
            run.add("ep_field_must_be_dash", 1);
            if f[3] != "-" {
                return Err(Finding::new("ep-field", "present although the last move was no double push", format!("'{txt}': en-passant field should be '-'")));
            }
        } else if p.ep_legal() {
            run.add("ep_field_required", 1);
            if Some(f[3].to_string()) != target {
                let shape = if f[3] == sq_name(p.dp_pawn_sq().unwrap()) { "rendered as the pawn's square (rank 4/5) instead of the passed-over square (rank 3/6)" } else if f[3] == "-" { "missing although a legal en-passant capture exists" } else { "wrong square" };
                return Err(Finding::new("ep-field", shape, format!("'{txt}': en-passant field should be {}", target.unwrap())));
            }
        } else if f[3] == "-" {
            run.add("ep_field_optional_absent", 1);
        } else {
            run.add("ep_field_optional_present", 1);
            run.tolerant("T1: ep field present though no legal capture exists", 1);
            if Some(f[3].to_string()) != target {
                let shape = if f[3] == sq_name(p.dp_pawn_sq().unwrap()) { "rendered as the pawn's square (rank 4/5) instead of the passed-over square (rank 3/6)" } else { "wrong square" };
                return Err(Finding::new("ep-field", shape, format!("'{txt}': en-passant field should be '-' or {}", target.unwrap())));
            }
        }
        run.add("renderings_checked", 1);
        // round trip of the library's own text
        match guard::lib(|| Board::from_str(&txt)).map_err(|e| Finding::new("panic", "from_str panicked", e))? {
            Ok(r) if r == b => {}
            Ok(_) => return Err(Finding::new("round-trip", "", format!("'{txt}' parses to a different board"))),
            Err(e) => return Err(Finding::new("round-trip", "own text rejected", format!("'{txt}': {e}"))),
        }
        // the standard writer's text
        let std_txt = p.fen();
        match guard::lib(|| Board::from_str(&std_txt)).map_err(|e| Finding::new("panic", "from_str panicked", e))? {
            Ok(r) if r == b => {}
            Ok(r) => return Err(Finding::new("standard-input", "", format!("standard FEN '{std_txt}' parses to {:?}, the position itself is {:?}", r, b))),
            Err(e) => return Err(Finding::new("standard-input", "standard text rejected", format!("'{std_txt}': {e}"))),
        }
        // the clocks of a standard FEN are arbitrary numbers; they must not disturb the position
        // (a long game: halfmove clock up to the hundreds, fullmove number in the hundreds or thousands)
        const CLOCKS: [&str; 6] = [" 37 54", " 99 256", " 0 300", " 149 1000", " 7 65536", " 100 5949"];
        let k = run.states.load(Ordering::Relaxed) as usize;
        for clk in [CLOCKS[0], CLOCKS[1 + k % 5]] {
            let clk_txt = std_txt.replace(" 0 1", clk);
            match guard::lib(|| Board::from_str(&clk_txt)).map_err(|e| Finding::new("panic", "from_str panicked", e))? {
                Ok(r) if r == b => {}
                Ok(_) => return Err(Finding::new("standard-input", "clock fields change the position", format!("standard FEN '{clk_txt}' parses to a different board than with clocks 0 1"))),
                Err(e) => return Err(Finding::new("standard-input", "standard text with other clocks rejected", format!("'{clk_txt}': {e}"))),
            }
        }
        run.add("standard_fen_parsed", 3);
        // the unvalidated builder renders and re-parses the same way
        let bb: BoardBuilder = (&b).into();
        check_builder(&bb, "builder of the board")?;
        let mut n = 1;
        // the 18 overridden variants on every 16th judged state and on every root
        let all_variants = s.path.is_none() && s.depth == 0 && run.states.load(Ordering::Relaxed) % 16 == 0 || run.states.load(Ordering::Relaxed) % 16 == 0;
        for side in [Color::White, Color::Black] {
            if !all_variants {
                break;
            }
            for file in -1..8i8 {
                let mut v = bb;
                v.side_to_move(side);
                v.en_passant(if file < 0 { None } else { Some(lfile(file)) });
                check_builder(&v, "builder with overridden side / en-passant file")?;
                n += 1;
            }
        }
        run.add("builder_variants_round_tripped", n);
        let partial = ![0u8, 3, 12, 15].contains(&p.castle);
        run.add("partial_rights_states", partial as u64);
        run.add("black_to_move_states", (p.stm == Col::B) as u64);
        if p.dp >= 0 || partial {
            run.nontrivial.fetch_add(1, Ordering::Relaxed);
        }
        let k = run.states.load(Ordering::Relaxed);
        run.sample_nth(k, 200_003, || json!({"kind": "judged state", "library_text": txt, "standard_writer_text": std_txt}));
        Ok(())
    }
}

pub const RULE: &str = "states = every position of the bounded trees, en-passant / castling / promotion / 3-man families and children, every rank with every one of its 256 occupancy patterns, positions with the longest possible placement text (32 men, 71 characters), every curated root under every other valid rights set and side to move, and pairs of positions whose hashes agree in a truncation or in the Fibonacci-hashed high half of the key rendered back to back on one thread; each judged: Display gives six single-space separated fields; placement, side and castling fields equal the independent writer's byte for byte; clocks are integers; en-passant field = passed-over square when a legal capture exists, '-' when the last move was no double push, either otherwise; from_str(own text) == board; from_str(standard writer's text, ep square after every double push) == board; BoardBuilder Display/FromStr reproduces every square, side, rights and en-passant for the board's builder and (on every 16th judged state) for 18 variants with overridden side / en-passant file. distinct_nontrivial = judged states right after a double push or with partial castling rights";

pub fn run(tier: Tier) -> i32 {
    let mut plan = standard_plan(tier, 4);
    if tier == Tier::Quick {
        // FEN text depends on rights, side and en-passant state, not on geometry: the quick tier keeps
        // the pawn sets, the en-passant, castling and promotion families as positions (the members
        // themselves carry every rights set, side and en-passant state) and explores children only
        // where a move creates such state (pre-push en-passant family: the push; small castling sets)
        plan.families.retain(|(f, _)| !f.name().starts_with("all placements of") || f.name().contains('P'));
        for (f, cd) in plan.families.iter_mut() {
            let n = f.name();
            if n.starts_with("all placements of") || n.starts_with("castling family (1") {
                *cd = 0;
            }
        }
    }
    plan.families.insert(0, (Box::new(crate::universe::rank_pattern_family()), 0));
    plan.families.insert(1, (Box::new(crate::universe::state_sibling_family()), 0));
    plan.call_order_pairs = true;
    let (run, _) = run_e1("C06", tier, COUNTERS, C06, plan, RULE, &[]);
    finish(&run, RULE)
}
pub fn replay(case: &Value) -> i32 {
    replay_e1("C06", COUNTERS, C06, case)
}
