//! Shared scaffolding for the E1 (position-graph) properties.

use crate::engine::plan::*;
use crate::engine::posgraph::*;
use crate::run::{Run, Tier};
use serde_json::{json, Value};
use std::sync::Arc;

pub const A_REF: &str = "the naive mailbox reference model (validated against published perft constants and mirror self-consistency at start-up) is the oracle for the rules of chess";
pub const A_FP: &str = "stateright deduplicates by a 64-bit fingerprint of (reference position, depth, null count); a fingerprint collision would silently skip one state";
pub const A_MERGE: &str = "states merged under one reference position have equal futures because the library's Board is compared with its from-scratch construction on every arrival (C03/C08 oracles)";

pub fn run_e1<O: PosOracle>(id: &str, tier: Tier, counters: &'static [&'static str], oracle: O, plan: Plan, rule: &str, extra_assumptions: &[&str]) -> (Arc<Run>, Arc<O>) {
    let run = Arc::new(Run::new(id, tier, counters));
    let oracle = Arc::new(oracle);
    run_plan(&run, &oracle, &plan);
    run.assume(A_REF);
    run.assume(A_FP);
    for a in extra_assumptions {
        run.assume(a);
    }
    let _ = rule;
    (run, oracle)
}

pub fn finish(run: &Run, rule: &str) -> i32 {
    run.finish("model_checking", rule, true, json!({}))
}

pub fn replay_e1<O: PosOracle>(id: &str, counters: &'static [&'static str], oracle: O, case: &Value) -> i32 {
    let run = Arc::new(Run::new(id, Tier::Quick, counters));
    match case["kind"].as_str() {
        Some("posgraph") => match replay_path(&oracle, &run, case) {
            Ok(()) => crate::replay_verdict(&run),
            Err(e) => {
                eprintln!("machinery: {e}");
                2
            }
        },
        k => {
            eprintln!("machinery: replay kind {k:?} not handled by {id}");
            2
        }
    }
}
