//! Shared scaffolding for the E1 (position-graph) properties.

use crate::bridge::*;
use crate::engine::plan::*;
use crate::refmodel::*;
use crate::engine::posgraph::*;
use crate::run::{Run, Tier};
use serde_json::{json, Value};
use std::sync::Arc;

pub const A_REF: &str = "the naive mailbox reference model (validated against published perft constants and mirror self-consistency at start-up) is the oracle for the rules of chess";
pub const A_FP: &str = "stateright deduplicates by a 64-bit fingerprint of (reference position, depth, null count); a fingerprint collision would silently skip one state";
pub const A_MERGE: &str = "states merged under one reference position have equal futures because the library's Board is compared with its from-scratch construction on every arrival (C03/C08 oracles)";

pub fn run_e1<O: PosOracle>(id: &str, tier: Tier, counters: &'static [&'static str], oracle: O, plan: Plan, rule: &str, extra_assumptions: &[&str]) -> (Arc<Run>, Arc<O>) {
    let run = Arc::new(Run::new(id, tier, counters));
    let oracle = Arc::new(oracle);
    run_plan(&run, &oracle, &plan);
    run.assume(A_REF);
    run.assume(A_FP);
    for a in extra_assumptions {
        run.assume(a);
    }
    let _ = rule;
    (run, oracle)
}

pub fn finish(run: &Run, rule: &str) -> i32 {
    run.finish("model_checking", rule, true, json!({}))
}

pub fn replay_e1<O: PosOracle>(id: &str, counters: &'static [&'static str], oracle: O, case: &Value) -> i32 {
    let run = Arc::new(Run::new(id, Tier::Quick, counters));
    match case["kind"].as_str() {
        Some("posgraph") => match replay_path(&oracle, &run, case) {
            Ok(()) => crate::replay_verdict(&run),
            Err(e) => {
                eprintln!("machinery: {e}");
                2
            }
        },
        k => {
            eprintln!("machinery: replay kind {k:?} not handled by {id}");
            2
        }
    }
}

thread_local! {
    static SIBS: std::cell::RefCell<(Option<RefPos>, Vec<chess::Board>)> = std::cell::RefCell::new((None, vec![]));
}
/// Boards to pre-fill the output of the in-place make_move with: the source's placement under other
/// castling rights / en-passant state / side to move, and the source's SQUARES with the kinds of two men
/// of one colour exchanged (valid ones only).  A shortcut "the output already holds this position" that
/// compares less than the whole board leaves stale fields behind in exactly these cases.
/// Are the sibling pre-fills tried for transitions out of this state?  Always for roots and family members
/// (depth 0: every placement of every family is a source there), for one in eight deeper states.
pub fn prefill_here(s: &St) -> bool {
    s.path.is_none() || s.key.bd.iter().enumerate().fold(0u32, |a, (i, b)| a.wrapping_mul(31).wrapping_add(*b as u32 * (i as u32 + 1))) % 8 == 0
}
/// The siblings for transitions out of `s` (empty where `prefill_here` says no); cached per source state.
pub fn prefill_siblings_of(s: &St) -> Vec<chess::Board> {
    let hit = SIBS.with(|c| {
        let c = c.borrow();
        if c.0 == Some(s.key) {
            Some(c.1.clone())
        } else {
            None
        }
    });
    if let Some(v) = hit {
        return v;
    }
    if prefill_here(s) {
        prefill_siblings(&s.key)
    } else {
        SIBS.with(|c| *c.borrow_mut() = (Some(s.key), vec![]));
        vec![]
    }
}
pub fn prefill_siblings(p: &RefPos) -> Vec<chess::Board> {
    SIBS.with(|c| {
        let mut c = c.borrow_mut();
        if c.0 != Some(*p) {
            let mut v: Vec<RefPos> = vec![];
            let mut maxr = 0u8;
            for (bit, col, rf) in [(WK, Col::W, 7i8), (WQ, Col::W, 0), (BK, Col::B, 7), (BQ, Col::B, 0)] {
                let hr = col.home_rank();
                if p.at(sq(4, hr)) == Some((Kind::K, col)) && p.at(sq(rf, hr)) == Some((Kind::R, col)) {
                    maxr |= bit;
                }
            }
            let mut rights: Vec<u8> = vec![maxr, 0];
            for bit in [WK, WQ, BK, BQ] {
                rights.push(p.castle & !bit);
                rights.push((p.castle | bit) & maxr);
            }
            rights.sort();
            rights.dedup();
            for r in rights {
                if r != p.castle {
                    let mut q = *p;
                    q.castle = r;
                    v.push(q);
                }
            }
            if p.dp >= 0 {
                let mut q = *p;
                q.dp = -1;
                v.push(q);
            }
            let mut q = *p;
            q.stm = p.stm.flip();
            q.dp = -1;
            v.push(q);
            // same squares, kinds of two men of one colour exchanged (rights dropped: they may lose their backing)
            for col in [Col::W, Col::B] {
                let men: Vec<Sq> = (0..64u8).filter(|s| matches!(p.at(*s), Some((_, c)) if c == col)).collect();
                let mut made = 0;
                'outer: for i in 0..men.len() {
                    for j in (i + 1)..men.len() {
                        let (a, b) = (p.at(men[i]).unwrap().0, p.at(men[j]).unwrap().0);
                        if a != b {
                            let mut q = *p;
                            q.castle = 0;
                            q.dp = -1;
                            q.clear(men[i]);
                            q.clear(men[j]);
                            q.put(men[i], b, col);
                            q.put(men[j], a, col);
                            if q.is_valid() {
                                v.push(q);
                                made += 1;
                                if made >= 3 {
                                    break 'outer;
                                }
                            }
                        }
                    }
                }
            }
            let boards: Vec<chess::Board> = v.into_iter().filter(|q| q.is_valid()).filter_map(|q| crate::guard::lib(|| from_scratch(&q)).ok().and_then(|r| r.ok())).collect();
            *c = (Some(*p), boards);
        }
        c.1.clone()
    })
}
