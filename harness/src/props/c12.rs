//! C12 — SAN parsing returns exactly the denoted move, and only ever legal moves.

use crate::bridge::*;
use crate::engine::posgraph::crumb_pos;
use crate::guard;
use crate::refmodel::san::*;
use crate::refmodel::*;
use crate::run::{Run, Tier, Violation};
use crate::universe::*;
use chess::{Board, ChessMove};
use rayon::prelude::*;
use serde_json::{json, Value};
use std::collections::BTreeSet;
use std::sync::atomic::Ordering;
use std::sync::Arc;

pub const COUNTERS: &[&str] = &[
    "positions", "spellings_parsed", "spellings_with_file_disambiguation", "spellings_with_rank_disambiguation", "spellings_with_square_disambiguation",
    "spellings_ep", "spellings_castle", "spellings_promotion", "spellings_with_check_mark", "spellings_with_mate_mark",
    "grammar_positions", "grammar_texts", "grammar_must_parse", "grammar_must_reject", "grammar_either", "mutated_texts", "mutated_texts_accepted", "short_strings",
    "call_order_pairs", "castling_texts",
];

pub const SAN_ROOTS: &[&str] = &[
    "7k/8/8/8/Q6Q/8/8/Q3K3 w - - 0 1",
    "3k4/8/8/R7/8/8/8/R3K2R w KQ - 0 1",
    "4k3/8/8/8/2N1N3/8/2N5/4K3 w - - 0 1",
    "k3r3/8/8/8/8/8/N3N3/4K3 w - - 0 1",
    "5k2/8/8/8/8/8/8/4K2R w K - 0 1",
    "4rkr1/4p1p1/8/8/8/8/8/4K2R w K - 0 1",
    "r3k2r/8/8/8/8/8/8/R3K2R w KQkq - 0 1",
    "rnbqkbnr/1pp1pppp/p7/3pP3/8/8/PPPP1PPP/RNBQKBNR w KQkq d6 0 1",
    "8/8/8/8/2pPp3/8/8/k3K3 b - d3 0 1",
    "1n1n4/2P5/8/8/8/8/k7/4K3 w - - 0 1",
    "8/5P1k/8/8/8/8/8/K7 w - - 0 1",
    "n1n5/PPPk4/8/8/8/8/4Kppp/5N1N b - - 0 1",
    "r3k2r/p1ppqpb1/bn2pnp1/3PN3/1p2P3/2N2Q1p/PPPBBPPP/R3K2R w KQkq - 0 1",
    "6k1/5ppp/8/8/8/8/8/R3K3 w Q - 0 1",
    "8/8/8/8/k2Pp2Q/8/8/3K4 b - d3 0 1",
    "B7/8/8/3B4/8/8/6B1/k3K3 w - - 0 1",
    // five and more men of one kind converging on a square; more than 128 legal moves
    "R6R/3Q4/1Q4Q1/4Q3/2Q4Q/Q4Q2/pp1Q4/kBNN1KB1 w - - 0 1",
    "7k/7p/Q1Q1Q3/6Q1/1Q6/3Q1Q2/Q1Q5/4K2R w K - 0 1",
    "3k4/8/8/8/8/N1N1N3/1N1N4/N1N1K3 w - - 0 1",
    "6k1/8/1N1N4/N3N3/2p5/N3N3/1N1N4/6K1 w - - 0 1",
    "4k3/8/8/1R1R1R2/8/1R1R1R2/8/4K3 w - - 0 1",
    // an en-passant right plus further own pawns on that rank with a free square ahead (a push spelled as a capture)
    "4k3/8/8/P2pP2P/8/8/8/4K3 w - d6 0 1",
    "4k3/8/2p5/P1Pp3P/8/8/8/4K3 w - d6 0 1",
    // ten of a kind
    "4k3/8/8/8/8/NNNNN3/NNNNN3/4K3 w - - 0 1",
    "7k/8/8/8/8/RRRRR3/RRRRR3/4K3 w - - 0 1",
    "3k4/8/8/8/8/1BBBBB2/1BBBBB2/6K1 w - - 0 1",
];

fn fail(run: &Run, clause: &str, shape: &str, detail: String, p: &RefPos, text: &str) -> bool {
    run.report(Violation::new("C12", clause, shape, format!("{detail}\n  position {}", p.fen()), json!({"kind": "san", "fen": p.fen(), "text": text})))
}
fn parse(b: &Board, text: &str) -> Result<Result<RMove, String>, String> {
    guard::lib(|| ChessMove::from_san(b, text).map(rmove).map_err(|e| e.to_string()))
}

/// (a) every admissible spelling of every legal move parses to exactly that move.
fn check_spellings(run: &Run, p: &RefPos, b: &Board, legal: &[RMove]) -> Vec<String> {
    let mut all = vec![];
    for m in legal {
        for text in spellings(p, *m) {
            let kindname = if p.is_castle(*m) { "castling" } else if p.is_ep(*m) { "en-passant capture" } else if m.promo.is_some() { "promotion" } else if p.is_capture(*m) { "capture" } else { "quiet move" };
            let mark = if text.contains('+') { " with check mark" } else if text.contains('#') { " with mate mark" } else { "" };
            let eps = if text.ends_with(" e.p.") { " with e.p. suffix" } else if p.is_ep(*m) { " without e.p. suffix" } else { "" };
            match parse(b, &text) {
                Err(e) => {
                    fail(run, "panic", "", format!("from_san({text:?}) panicked: {e}"), p, &text);
                }
                Ok(Ok(got)) if got == *m => {}
                Ok(Ok(got)) => {
                    fail(run, "spelling-wrong-move", &format!("{kindname}{mark}{eps}"), format!("from_san({text:?}) = {got}, the spelling denotes {m}"), p, &text);
                }
                Ok(Err(e)) => {
                    fail(run, "spelling-rejected", &format!("{kindname}{mark}{eps}"), format!("from_san({text:?}) is rejected ({e}); it is an admissible spelling of the legal move {m}"), p, &text);
                }
            }
            run.add("spellings_parsed", 1);
            let body: String = text.chars().skip_while(|c| c.is_ascii_uppercase() && *c != 'O').collect();
            let b0 = body.as_bytes();
            if !p.is_castle(*m) && !matches!(p.at(m.from), Some((Kind::P, _))) && b0.len() >= 3 {
                let f = (b'a'..=b'h').contains(&b0[0]);
                let r2 = (b'1'..=b'8').contains(&b0[1]);
                let third_sq = b0.len() >= 4 && ((b'a'..=b'h').contains(&b0[2]) || b0[2] == b'x');
                if f && r2 && third_sq {
                    run.add("spellings_with_square_disambiguation", 1);
                } else if f && !r2 {
                    run.add("spellings_with_file_disambiguation", 1);
                } else if (b'1'..=b'8').contains(&b0[0]) {
                    run.add("spellings_with_rank_disambiguation", 1);
                }
            }
            run.add("spellings_ep", p.is_ep(*m) as u64);
            run.add("spellings_castle", p.is_castle(*m) as u64);
            run.add("spellings_promotion", m.promo.is_some() as u64);
            run.add("spellings_with_check_mark", text.contains('+') as u64);
            run.add("spellings_with_mate_mark", text.contains('#') as u64);
            all.push(text);
        }
    }
    all
}

/// (b) every grammar-complete text over a per-position alphabet against the reference interpreter.
fn check_grammar(run: &Run, p: &RefPos, b: &Board, legal: &[RMove]) {
    let mut dests: BTreeSet<Sq> = legal.iter().map(|m| m.to).collect();
    // two squares no legal move reaches
    for s in [27u8, 36, 0, 63, 18, 45] {
        if dests.len() < legal.iter().map(|m| m.to).collect::<BTreeSet<_>>().len() + 2 {
            dests.insert(s);
        }
    }
    let mut sources: Vec<(Option<i8>, Option<i8>)> = vec![(None, None)];
    for f in 0..8 {
        sources.push((Some(f), None));
    }
    for r in 0..8 {
        sources.push((None, Some(r)));
    }
    for f in 0..8 {
        for r in 0..8 {
            sources.push((Some(f), Some(r)));
        }
    }
    let (mut n, mut must, mut rej, mut either) = (0u64, 0u64, 0u64, 0u64);
    for piece in KINDS {
        for (sf, sr) in sources.iter() {
            for takes in [false, true] {
                for &dest in dests.iter() {
                    for promo in [None, Some(Kind::Q), Some(Kind::N)] {
                        for mark in [None, Some('+')] {
                            for ep in [false, true] {
                                let t = SanText { piece, sf: *sf, sr: *sr, takes, dest, promo, mark, ep };
                                let text = t.render();
                                let want = interpret(p, legal, &t);
                                n += 1;
                                let got = match parse(b, &text) {
                                    Err(e) => {
                                        fail(run, "panic", "", format!("from_san({text:?}) panicked: {e}"), p, &text);
                                        return;
                                    }
                                    Ok(g) => g,
                                };
                                match (want, got) {
                                    (Expect::Must(m), Ok(g)) if g == m => must += 1,
                                    (Expect::Must(m), Ok(g)) => {
                                        fail(run, "grammar-wrong-move", "", format!("from_san({text:?}) = {g}; the text fits exactly the legal move {m}"), p, &text);
                                        return;
                                    }
                                    (Expect::Must(m), Err(e)) => {
                                        let shape = if p.is_ep(m) && !t.ep { "en-passant capture without e.p. suffix" } else { "text fitting exactly one legal move" };
                                        if fail(run, "grammar-rejected", shape, format!("from_san({text:?}) is rejected ({e}); the text fits exactly the legal move {m}"), p, &text) {
                                            return;
                                        }
                                    }
                                    (Expect::MustErr, Ok(g)) => {
                                        let fits = legal.iter().filter(|m| m.to == dest).count();
                                        fail(run, "grammar-accepted", if fits > 1 { "ambiguous or non-fitting text accepted" } else { "text fitting no legal move accepted" }, format!("from_san({text:?}) = {g}; the text fits no legal move or more than one"), p, &text);
                                        return;
                                    }
                                    (Expect::MustErr, Err(_)) => rej += 1,
                                    (Expect::Either(m), Ok(g)) if g != m => {
                                        fail(run, "grammar-wrong-move", "flawed marker", format!("from_san({text:?}) = {g}; the only legal move fitting the text is {m}"), p, &text);
                                        return;
                                    }
                                    (Expect::Either(_), _) => either += 1,
                                }
                            }
                        }
                    }
                }
            }
        }
    }
    run.add("grammar_positions", 1);
    run.add("grammar_texts", n);
    run.add("grammar_must_parse", must);
    run.add("grammar_must_reject", rej);
    run.add("grammar_either", either);
    run.tolerant("T4: text flawed only in an unvalidated marker (x, e.p., +/#) or castling spelled as a king move", either);
}

const EDIT_ALPHABET: &[&str] = &["a", "e", "h", "1", "4", "8", "x", "N", "K", "Q", "O", "-", "+", "#", "=", " ", ".", "p", "é", "€", "😀", "\n", "\u{14e}", "\u{178}", "\u{14f}", "\u{131}", "\u{165}", "\u{1f151}"];

/// Castling texts on EVERY position: "O-O" / "O-O-O" (and the zero forms, with and without a mark) denote
/// castling and nothing else — where that castling is not legal the text denotes no legal move and must be
/// rejected, even if some ordinary king move to g1 / c1 happens to be legal.
fn check_castling_texts(run: &Run, p: &RefPos, b: &Board, legal: &[RMove]) {
    for (text, kingside) in [("O-O", true), ("O-O-O", false), ("0-0", true), ("0-0-0", false)] {
        let want: Option<RMove> = legal.iter().copied().find(|m| p.is_castle(*m) && (file_of(m.to) == 6) == kingside);
        for mark in ["", "+", "#"] {
            let t = format!("{text}{mark}");
            match parse(b, &t) {
                Err(e) => {
                    fail(run, "panic", "castling text", format!("from_san({t:?}) panicked: {e}"), p, &t);
                    return;
                }
                Ok(got) => {
                    run.add("castling_texts", 1);
                    match (want, got) {
                        (None, Ok(m)) => {
                            fail(run, "grammar-accepted", "castling text where that castling is not legal", format!("from_san({t:?}) = {m}; castling on that wing is not legal here, the text denotes no legal move"), p, &t);
                            return;
                        }
                        (Some(w), Ok(m)) if m != w => {
                            fail(run, "spelling-wrong-move", "castling", format!("from_san({t:?}) = {m}, expected {w}"), p, &t);
                            return;
                        }
                        (Some(w), Err(_)) if mark.is_empty() && text.starts_with('O') => {
                            fail(run, "spelling-rejected", "castling", format!("from_san({t:?}) is rejected although {w} is legal"), p, &t);
                            return;
                        }
                        _ => {}
                    }
                }
            }
        }
    }
}

/// (c) 1-edit ball of every spelling, and all short strings: no panic, Ok(m) => m legal.
fn check_safety(run: &Run, p: &RefPos, b: &Board, legal: &[RMove], texts: &[String], short_len: usize) {
    let judge = |text: &str| -> bool {
        match parse(b, text) {
            Err(e) => {
                fail(run, "panic", "arbitrary text", format!("from_san({text:?}) panicked: {e}"), p, text);
                false
            }
            Ok(Ok(m)) => {
                if !legal.contains(&m) {
                    fail(run, "illegal-move-returned", "", format!("from_san({text:?}) = {m}, which is not legal"), p, text);
                    return false;
                }
                run.add("mutated_texts_accepted", 1);
                true
            }
            Ok(Err(_)) => true,
        }
    };
    let mut seen: BTreeSet<String> = BTreeSet::new();
    for t in texts {
        let chars: Vec<char> = t.chars().collect();
        for i in 0..=chars.len() {
            // insertions
            for a in EDIT_ALPHABET {
                let s: String = chars[..i].iter().collect::<String>() + a + &chars[i..].iter().collect::<String>();
                if seen.insert(s.clone()) && !judge(&s) {
                    return;
                }
            }
            if i < chars.len() {
                // deletion and substitutions
                let s: String = chars[..i].iter().chain(chars[i + 1..].iter()).collect();
                if seen.insert(s.clone()) && !judge(&s) {
                    return;
                }
                for a in EDIT_ALPHABET {
                    let s: String = chars[..i].iter().collect::<String>() + a + &chars[i + 1..].iter().collect::<String>();
                    if seen.insert(s.clone()) && !judge(&s) {
                        return;
                    }
                }
            }
        }
    }
    run.add("mutated_texts", seen.len() as u64);
    // all strings up to short_len over the alphabet
    let mut n = 0u64;
    let mut stack: Vec<String> = vec![String::new()];
    while let Some(s) = stack.pop() {
        if !judge(&s) {
            return;
        }
        n += 1;
        if s.chars().count() < short_len {
            for a in EDIT_ALPHABET {
                stack.push(format!("{s}{a}"));
            }
        }
    }
    run.add("short_strings", n);
}

pub const RULE: &str = "positions = SAN-specific roots (queens / rooks / knights / bishops needing file, rank and full-square disambiguation, a pinned rival, castling with check and with mate, en-passant captures, capture- and under-promotions), the curated roots, and their children (quick: children of the SAN roots; thorough: also of all roots), plus the en-passant family without extra man and the ~4350 feature-covering roots (thorough: with children). Per position: (a) every admissible spelling of every legal move (minimal and every fuller correct disambiguation, x on captures, promotion letter, no mark or the correct +/#, optional ' e.p.') must parse to exactly that move; (b) on a subset, EVERY grammar-complete text piece x source(81) x x x dest(all destinations + 2) x promo{-,Q,N} x {-,+} x {-, e.p.} judged by a reference interpreter (fits exactly one and markers right: must parse to it; fits none or several: must be rejected; flawed only in an unvalidated marker: either); (d) call order: for up to 400 (thorough 4000) pairs per truncation of different positions whose hashes agree in the low 32 / high 32 / low 16 / low 24 / xor-folded 32 / high 32 + low 8 / high 16 + low 16 bits / the high half of key x golden ratio, from_san is asked about the first and then, on the same thread, every spelling of every move of the second is judged (a memo keyed by a narrowed hash would answer for the wrong position); (e) castling texts (O-O, O-O-O, 0-0, 0-0-0, with and without + / #) on EVERY position: the castling move where it is legal, rejected where it is not (a legal king step to g1 / c1 does not make the text admissible); an 'x' without ' e.p.' on a move that captures nothing must be rejected; (c) the complete 1-edit ball (insert / delete / substitute over a 28-symbol alphabet incl. 2/3/4-byte characters, among them characters whose low byte equals N, x, O, 1, e, Q) of every spelling and all strings of length <= 3 (quick: 2): no panic and Ok(m) implies m legal. distinct_nontrivial = spellings that needed disambiguation, castling, en passant, promotion or a check/mate mark";

fn check_position(run: &Run, p: &RefPos, grammar: bool, short_len: usize) {
    let b = match guard::lib(|| from_scratch(p)) {
        Ok(Ok(b)) => b,
        _ => return,
    };
    crumb_pos(p, None);
    let legal = p.legal_moves();
    run.add("positions", 1);
    run.states.fetch_add(1, Ordering::Relaxed);
    let texts = check_spellings(run, p, &b, &legal);
    if !run.has_violation() {
        check_castling_texts(run, p, &b, &legal);
    }
    run.transitions.fetch_add(texts.len() as u64, Ordering::Relaxed);
    if run.has_violation() {
        return;
    }
    if grammar {
        check_grammar(run, p, &b, &legal);
    }
    if run.has_violation() {
        return;
    }
    if short_len > 0 {
        check_safety(run, p, &b, &legal, &texts, short_len);
    }
}

pub fn run(tier: Tier) -> i32 {
    let run = Arc::new(Run::new("C12", tier, COUNTERS));
    let san_roots: Vec<RefPos> = SAN_ROOTS.iter().map(|f| RefPos::from_fen(f).expect("machinery: SAN root")).flat_map(|p| [p, p.mirror_v()]).collect();
    let all_roots: Vec<RefPos> = roots().into_iter().map(|r| r.pos).collect();
    let mut seen = BTreeSet::new();
    // tier 1 positions: grammar-complete + safety
    let mut full: Vec<RefPos> = san_roots.clone();
    full.extend(all_roots.iter().step_by(tier.pick(6, 2)).copied());
    full.retain(|p| seen.insert(*p));
    // tier 2 positions: spellings only (+ 1-edit safety on a stride)
    let mut light: Vec<RefPos> = vec![];
    for p in san_roots.iter().chain(all_roots.iter()) {
        light.push(*p);
    }
    let kids_of: Vec<RefPos> = if tier == Tier::Thorough { san_roots.iter().chain(all_roots.iter()).copied().collect() } else { san_roots.clone() };
    for p in kids_of.iter() {
        for m in p.legal_moves() {
            light.push(p.apply(m));
        }
    }
    // feature-covering roots (quick: themselves; thorough: also their children)
    let fr = feature_roots();
    for p in fr.iter() {
        light.push(*p);
        if tier == Tier::Thorough {
            for m in p.legal_moves() {
                light.push(p.apply(m));
            }
        }
    }
    let epf = EpFamily { extra: Extra::None, pre_push: false };
    light.extend((0..epf.size()).step_by(tier.pick(7, 1)).filter_map(|i| epf.get(i)));
    // a capturer on both sides: "cxd6" / "exd6" need their file, and either may be pinned
    let epf2 = EpTwoFamily { extra: Extra::None, pre_push: false };
    light.extend((0..epf2.size()).step_by(tier.pick(5, 1)).filter_map(|i| epf2.get(i)));
    light.retain(|p| seen.insert(*p));
    run.note("positions_with_grammar_and_safety", json!(full.len()));
    run.note("positions_with_spellings", json!(light.len()));
    let short_len = tier.pick(2usize, 3usize);
    full.par_iter().for_each(|p| {
        if !run.has_violation() {
            check_position(&run, p, true, short_len);
        }
    });
    light.par_iter().enumerate().for_each(|(i, p)| {
        if !run.has_violation() {
            check_position(&run, p, false, if i % 16 == 0 { 1 } else { 0 });
        }
    });
    // state carried between calls: for pairs of different positions whose hashes agree in a truncation
    // of the key, ask about the first and then, on the same thread, about the second
    if !run.has_violation() {
        let pairs = hash_collision_pairs(tier.pick(400, 4000));
        run.note("hash_truncation_pairs", json!(pairs.len()));
        pairs.par_iter().for_each(|(p1, p2, kind)| {
            if run.has_violation() {
                return;
            }
            let (b1, b2) = match (guard::lib(|| from_scratch(p1)), guard::lib(|| from_scratch(p2))) {
                (Ok(Ok(a)), Ok(Ok(b))) => (a, b),
                _ => return,
            };
            if let Some(m) = p1.legal_moves().first() {
                if let Some(t) = spellings(p1, *m).first() {
                    let _ = parse(&b1, t);
                }
            }
            let before = run.has_violation();
            let legal = p2.legal_moves();
            crumb_pos(p2, None);
            let _ = check_spellings(&run, p2, &b2, &legal);
            if !before && run.has_violation() {
                eprintln!("[C12] note: the failing position {} was asked about right after {} (hashes agree in their {kind})", p2.fen(), p1.fen());
            }
            run.add("call_order_pairs", 1);
        });
    }
    let nt = run.get("spellings_with_file_disambiguation") + run.get("spellings_with_rank_disambiguation") + run.get("spellings_with_square_disambiguation") + run.get("spellings_ep") + run.get("spellings_castle") + run.get("spellings_promotion") + run.get("spellings_with_check_mark") + run.get("spellings_with_mate_mark");
    run.nontrivial.store(nt, Ordering::Relaxed);
    let p0 = san_roots[0];
    run.sample(json!({"kind": "spellings", "fen": p0.fen(), "move": "a4d4", "spellings": spellings(&p0, RMove::parse_uci("a4d4").unwrap())}));
    let p7 = RefPos::from_fen(SAN_ROOTS[7]).unwrap();
    run.sample(json!({"kind": "spellings", "fen": p7.fen(), "move": "e5d6", "spellings": spellings(&p7, RMove::parse_uci("e5d6").unwrap())}));
    run.sample(json!({"kind": "grammar text", "fen": p0.fen(), "text": "Qaxd4+ e.p.", "expect": "rejected or the single fitting move (markers are not validated)"}));
    run.assume("castling spelled as a king move (Kg1), wrong or missing x / e.p. markers and check marks that do not match the move are a tolerant zone: rejected or the one fitting move");
    run.finish("model_checking", RULE, true, json!({}))
}

pub fn replay(case: &Value) -> i32 {
    let run = Arc::new(Run::new("C12", Tier::Quick, COUNTERS));
    let p = match RefPos::from_fen(case["fen"].as_str().unwrap_or("")) {
        Ok(p) => p,
        Err(e) => {
            eprintln!("machinery: {e}");
            return 2;
        }
    };
    let text = case["text"].as_str().unwrap_or("").to_string();
    let b = from_scratch(&p).expect("machinery: replay position");
    let legal = p.legal_moves();
    // the text may be an admissible spelling, a grammar text, or arbitrary: judge it all three ways
    let spelled: Vec<RMove> = legal.iter().copied().filter(|m| spellings(&p, *m).contains(&text)).collect();
    match parse(&b, &text) {
        Err(e) => {
            fail(&run, "panic", "", format!("from_san({text:?}) panicked: {e}"), &p, &text);
        }
        Ok(got) => {
            if let Ok(m) = &got {
                if !legal.contains(m) {
                    fail(&run, "illegal-move-returned", "", format!("from_san({text:?}) = {m}, not legal"), &p, &text);
                }
            }
            if spelled.len() == 1 && got.as_ref().ok() != Some(&spelled[0]) {
                fail(&run, "spelling-rejected", "", format!("from_san({text:?}) = {:?}; it is an admissible spelling of {}", got, spelled[0]), &p, &text);
            }
            if spelled.is_empty() {
                // grammar reading: re-run the grammar sweep of this position (cheap) to see whether the text is among the offenders
                check_grammar(&run, &p, &b, &legal);
            }
        }
    }
    crate::replay_verdict(&run)
}
