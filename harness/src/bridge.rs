//! Conversions between the reference model's types and the library's, and the *observable*
//! position of a library `Board` (only public accessors are used).

use crate::refmodel::*;
use chess::{BitBoard, Board, BoardBuilder, CastleRights, ChessMove, Color, File, MoveGen, Piece, Square};
use std::convert::TryFrom;

#[inline]
pub fn lsq(s: Sq) -> Square {
    Square::new(s)
}
#[inline]
pub fn rsq(s: Square) -> Sq {
    s.to_index() as u8
}
pub fn lkind(k: Kind) -> Piece {
    match k {
        Kind::P => Piece::Pawn,
        Kind::N => Piece::Knight,
        Kind::B => Piece::Bishop,
        Kind::R => Piece::Rook,
        Kind::Q => Piece::Queen,
        Kind::K => Piece::King,
    }
}
pub fn rkind(p: Piece) -> Kind {
    match p {
        Piece::Pawn => Kind::P,
        Piece::Knight => Kind::N,
        Piece::Bishop => Kind::B,
        Piece::Rook => Kind::R,
        Piece::Queen => Kind::Q,
        Piece::King => Kind::K,
    }
}
pub fn lcol(c: Col) -> Color {
    if c == Col::W {
        Color::White
    } else {
        Color::Black
    }
}
pub fn rcol(c: Color) -> Col {
    if c == Color::White {
        Col::W
    } else {
        Col::B
    }
}
pub fn lmove(m: RMove) -> ChessMove {
    ChessMove::new(lsq(m.from), lsq(m.to), m.promo.map(lkind))
}
pub fn rmove(m: ChessMove) -> RMove {
    RMove::new(rsq(m.get_source()), rsq(m.get_dest()), m.get_promotion().map(rkind))
}
pub fn lrights(k: bool, q: bool) -> CastleRights {
    match (k, q) {
        (false, false) => CastleRights::NoRights,
        (true, false) => CastleRights::KingSide,
        (false, true) => CastleRights::QueenSide,
        (true, true) => CastleRights::Both,
    }
}
pub fn rrights_bits(w: CastleRights, b: CastleRights) -> u8 {
    let mut v = 0;
    if w.has_kingside() {
        v |= WK;
    }
    if w.has_queenside() {
        v |= WQ;
    }
    if b.has_kingside() {
        v |= BK;
    }
    if b.has_queenside() {
        v |= BQ;
    }
    v
}
pub fn lfile(f: i8) -> File {
    File::from_index(f as usize)
}
pub fn bb_squares(b: BitBoard) -> Vec<Sq> {
    // deliberately not the library's iterator: plain bit tests
    (0..64u8).filter(|&s| b.0 & (1u64 << s) != 0).collect()
}

pub fn builder_of(p: &RefPos) -> BoardBuilder {
    let mut b = BoardBuilder::new();
    for s in 0..64u8 {
        if let Some((k, c)) = p.at(s) {
            b.piece(lsq(s), lkind(k), lcol(c));
        }
    }
    b.side_to_move(lcol(p.stm));
    b.castle_rights(Color::White, lrights(p.has_k(Col::W), p.has_q(Col::W)));
    b.castle_rights(Color::Black, lrights(p.has_k(Col::B), p.has_q(Col::B)));
    b.en_passant(if p.dp >= 0 { Some(lfile(p.dp)) } else { None });
    b
}
/// The library's from-scratch construction of the reference position (through the builder).
pub fn from_scratch(p: &RefPos) -> Result<Board, String> {
    Board::try_from(&builder_of(p)).map_err(|e| format!("{e}"))
}

/// What a user can observe of a `Board` through its public accessors.
#[derive(Clone, Copy, PartialEq, Eq, Hash, Debug, PartialOrd, Ord)]
pub struct Obs {
    pub bd: [u8; 64],
    pub stm: Col,
    pub castle: u8,
    /// `Board::en_passant()`: the square of the pawn that can be captured en passant
    pub ep: Option<Sq>,
}
pub fn observe(b: &Board) -> Obs {
    let mut bd = [0u8; 64];
    for s in 0..64u8 {
        match (b.piece_on(lsq(s)), b.color_on(lsq(s))) {
            (Some(p), Some(c)) => bd[s as usize] = code(rkind(p), rcol(c)),
            (None, None) => {}
            // inconsistent answers are encoded so that they never compare equal to a real cell
            (Some(p), None) => bd[s as usize] = 100 + rkind(p) as u8,
            (None, Some(c)) => bd[s as usize] = 200 + rcol(c) as u8,
        }
    }
    Obs {
        bd,
        stm: rcol(b.side_to_move()),
        castle: rrights_bits(b.castle_rights(Color::White), b.castle_rights(Color::Black)),
        ep: b.en_passant().map(rsq),
    }
}
impl Obs {
    pub fn describe(&self) -> String {
        let mut p = RefPos::empty();
        let mut odd = String::new();
        for s in 0..64u8 {
            let c = self.bd[s as usize];
            if c <= 12 {
                p.bd[s as usize] = c;
            } else {
                odd.push_str(&format!(" [{}: inconsistent piece_on/color_on code {}]", sq_name(s), c));
            }
        }
        p.stm = self.stm;
        p.castle = self.castle;
        format!(
            "{} {} {} ep_pawn={}{}",
            p.placement_field(),
            if p.stm == Col::W { "w" } else { "b" },
            p.castle_field(),
            self.ep.map(sq_name).unwrap_or_else(|| "-".into()),
            odd
        )
    }
}
/// Does the observable position equal the reference position (en passant judged separately)?
pub fn same_placement_side_rights(o: &Obs, p: &RefPos) -> bool {
    o.bd == p.bd && o.stm == p.stm && o.castle == p.castle
}

/// The moves yielded by a fresh legal move generator, in the order yielded.
pub fn lib_moves(b: &Board) -> Vec<RMove> {
    MoveGen::new_legal(b).map(rmove).collect()
}

/// Compact (35-byte) encoding of an observable position, for large tables.
pub type Packed = [u8; 35];
pub fn pack(o: &Obs) -> Packed {
    let mut out = [0u8; 35];
    for i in 0..32 {
        out[i] = (o.bd[2 * i].min(15)) | (o.bd[2 * i + 1].min(15) << 4);
    }
    out[32] = o.stm as u8;
    out[33] = o.castle;
    out[34] = o.ep.map(|s| s + 1).unwrap_or(0);
    out
}
/// Unpack into a reference position whose `dp` is the file of the recorded en-passant pawn.
pub fn unpack(p: &Packed) -> RefPos {
    let mut r = RefPos::empty();
    for i in 0..32 {
        r.bd[2 * i] = (p[i] & 15).min(12);
        r.bd[2 * i + 1] = (p[i] >> 4).min(12);
    }
    r.stm = if p[32] == 0 { Col::W } else { Col::B };
    r.castle = p[33];
    r.dp = if p[34] == 0 { -1 } else { file_of(p[34] - 1) };
    r
}
