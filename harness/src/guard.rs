//! Panic containment.  Every call into the library is wrapped in `lib(...)`, which turns an
//! ordinary panic into an `Err(message)`.  Non-unwinding panics (the standard library's UB
//! precondition checks on `get_unchecked` & co. in this debug-assertion build) cannot be
//! caught; the panic hook still runs for them, so the hook itself reports the case the thread
//! was working on (its "crumb") as a violation and exits 1.  Panics outside `lib(...)` are
//! failures of the machinery and end the process with exit status 2.

use std::cell::{Cell, RefCell};
use std::panic::{self, AssertUnwindSafe};
use std::sync::OnceLock;

thread_local! {
    static IN_LIB: Cell<u32> = Cell::new(0);
    static LAST_PANIC: RefCell<String> = RefCell::new(String::new());
    static CRUMB: RefCell<String> = RefCell::new(String::new());
    static CRUMB_FN: Cell<Option<(fn(&[u8]) -> String, [u8; 96], usize)>> = Cell::new(None);
}
static PROP: OnceLock<(String, String)> = OnceLock::new();

pub fn install(property: &str, verif_dir: &str) {
    let _ = PROP.set((property.to_string(), verif_dir.to_string()));
    panic::set_hook(Box::new(|info| {
        let msg = {
            let p = info.payload();
            let s = if let Some(s) = p.downcast_ref::<&str>() {
                s.to_string()
            } else if let Some(s) = p.downcast_ref::<String>() {
                s.clone()
            } else {
                "<non-string panic payload>".to_string()
            };
            match info.location() {
                Some(l) => format!("{} at {}:{}", s, l.file(), l.line()),
                None => s,
            }
        };
        let in_lib = IN_LIB.with(|c| c.get()) > 0;
        // `PanicHookInfo::can_unwind` is unstable; the UB-check panics are recognised by their
        // fixed message prefix instead.
        let nounwind = msg.starts_with("unsafe precondition(s) violated") || msg.contains("cannot unwind");
        if in_lib && nounwind {
            // the library tripped an unsafe-precondition check: a verdict about the library
            let crumb = current_crumb();
            let (prop, dir) = PROP.get().cloned().unwrap_or(("C??".into(), "/verif".into()));
            let path = format!("{dir}/replays/{prop}-abort.json");
            let _ = std::fs::create_dir_all(format!("{dir}/replays"));
            let body = serde_json::json!({
                "property": prop,
                "clause": format!("{prop}/abort"),
                "signature": format!("{prop}/abort: non-unwinding panic inside the library"),
                "detail": format!("non-unwinding panic inside the library: {msg}"),
                "case": {"kind": "crumb", "crumb": crumb},
            });
            let _ = std::fs::write(&path, serde_json::to_string_pretty(&body).unwrap());
            // minimal evidence so that the run leaves a valid file behind
            let ev = serde_json::json!({
                "property_id": prop, "tier": std::env::var("VERIF_TIER").unwrap_or("quick".into()),
                "seed": 0, "level": "other",
                "coverage": {"explanation": format!("run aborted by a non-unwinding panic inside the library: {msg}; case {crumb}")},
                "wall_s": 0.0, "violations": 1
            });
            let edir = std::env::var("VERIF_EVIDENCE_DIR").unwrap_or_else(|_| format!("{dir}/evidence"));
            let _ = std::fs::write(format!("{edir}/{prop}.json"), serde_json::to_string_pretty(&ev).unwrap());
            println!("library abort: {msg}\n  while working on: {crumb}");
            println!("VIOLATION property={prop} replay={path}");
            use std::io::Write;
            let _ = std::io::stdout().flush();
            std::process::exit(1);
        } else if in_lib {
            LAST_PANIC.with(|l| *l.borrow_mut() = msg);
        } else {
            eprintln!("MACHINERY FAILURE (panic outside the library): {msg}");
            eprintln!("  crumb: {}", current_crumb());
        }
    }));
}

fn current_crumb() -> String {
    if let Some((f, buf, n)) = CRUMB_FN.with(|c| c.get()) {
        return f(&buf[..n]);
    }
    CRUMB.with(|c| c.borrow().clone())
}

/// Cheap breadcrumb: raw bytes plus a decoder, formatted only if the process is about to die.
#[inline]
pub fn crumb_raw(decode: fn(&[u8]) -> String, bytes: &[u8]) {
    let mut buf = [0u8; 96];
    let n = bytes.len().min(96);
    buf[..n].copy_from_slice(&bytes[..n]);
    CRUMB_FN.with(|c| c.set(Some((decode, buf, n))));
}
pub fn crumb_text(s: &str) {
    CRUMB_FN.with(|c| c.set(None));
    CRUMB.with(|c| {
        let mut b = c.borrow_mut();
        b.clear();
        b.push_str(s);
    });
}

/// Run a piece of library code; an unwinding panic becomes `Err(message)`.
#[inline]
pub fn lib<T>(f: impl FnOnce() -> T) -> Result<T, String> {
    IN_LIB.with(|c| c.set(c.get() + 1));
    let r = panic::catch_unwind(AssertUnwindSafe(f));
    IN_LIB.with(|c| c.set(c.get() - 1));
    match r {
        Ok(v) => Ok(v),
        Err(_) => Err(LAST_PANIC.with(|l| l.borrow().clone())),
    }
}
