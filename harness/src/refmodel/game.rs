//! Reference game automaton (C10 / C11): the whole state is the start position plus the log of
//! accepted actions; everything else is recomputed from that.

use super::pos::*;

#[derive(Clone, Copy, PartialEq, Eq, Debug, Hash)]
pub enum RAction {
    Move(RMove),
    Offer(Col),
    Accept,
    Declare,
    Resign(Col),
}
#[derive(Clone, Copy, PartialEq, Eq, Debug)]
pub enum RResult {
    WhiteCheckmates,
    WhiteResigns,
    BlackCheckmates,
    BlackResigns,
    Stalemate,
    DrawAccepted,
    DrawDeclared,
}

#[derive(Clone, Debug)]
pub struct RefGame {
    pub start: RefPos,
    pub log: Vec<RAction>,
}

/// Three-valued answer where the statement's wording admits two readings.
#[derive(Clone, Copy, PartialEq, Eq, Debug)]
pub enum Tri {
    Yes,
    No,
    Either,
}

impl RefGame {
    pub fn new(start: RefPos) -> RefGame {
        RefGame { start, log: vec![] }
    }
    pub fn position(&self) -> RefPos {
        let mut p = self.start;
        for a in self.log.iter() {
            if let RAction::Move(m) = a {
                p = p.apply(*m);
            }
        }
        p
    }
    pub fn result(&self) -> Option<RResult> {
        let p = self.position();
        if p.legal_moves().is_empty() {
            return Some(if p.in_check() {
                if p.stm == Col::W {
                    RResult::BlackCheckmates
                } else {
                    RResult::WhiteCheckmates
                }
            } else {
                RResult::Stalemate
            });
        }
        match self.log.last() {
            Some(RAction::Accept) => Some(RResult::DrawAccepted),
            Some(RAction::Declare) => Some(RResult::DrawDeclared),
            Some(RAction::Resign(Col::W)) => Some(RResult::WhiteResigns),
            Some(RAction::Resign(Col::B)) => Some(RResult::BlackResigns),
            _ => None,
        }
    }
    /// May a draw be accepted now?  (the latest action is an offer, or it is a move whose mover
    /// offered a draw immediately before it)
    pub fn acceptable(&self) -> bool {
        let n = self.log.len();
        match self.log.last() {
            Some(RAction::Offer(_)) => true,
            Some(RAction::Move(_)) if n >= 2 => {
                // who made that last move: the side to move in the position before it
                let mut g = self.clone();
                g.log.pop();
                let mover = g.position().stm;
                self.log[n - 2] == RAction::Offer(mover)
            }
            _ => false,
        }
    }
    /// Half-moves at the end of the game without pawn move or capture.
    pub fn halfmove_clock(&self) -> usize {
        let mut p = self.start;
        let mut clock = 0;
        for a in self.log.iter() {
            if let RAction::Move(m) = a {
                if matches!(p.at(m.from), Some((Kind::P, _))) || p.is_capture(*m) {
                    clock = 0;
                } else {
                    clock += 1;
                }
                p = p.apply(*m);
            }
        }
        clock
    }
    /// Occurrences of the current position, under the strict reading (en-passant possibility =
    /// a legal en-passant capture exists) and the loose one (= an enemy pawn stands beside the
    /// double-pushed pawn).
    pub fn repetitions(&self) -> (usize, usize) {
        let ident = |p: &RefPos, strict: bool| {
            let mut q = *p;
            let keep = if strict { p.ep_legal() } else { p.ep_adjacent() };
            if !keep {
                q.dp = -1;
            }
            q
        };
        let mut p = self.start;
        let mut hist = vec![p];
        for a in self.log.iter() {
            if let RAction::Move(m) = a {
                p = p.apply(*m);
                hist.push(p);
            }
        }
        let cur = hist[hist.len() - 1];
        let count = |strict: bool| hist.iter().filter(|h| ident(h, strict) == ident(&cur, strict)).count();
        (count(true), count(false))
    }
    pub fn claimable(&self) -> Tri {
        if self.result().is_some() {
            return Tri::No;
        }
        if self.halfmove_clock() >= 100 {
            return Tri::Yes;
        }
        let (a, b) = self.repetitions();
        match (a >= 3, b >= 3) {
            (true, true) => Tri::Yes,
            (false, false) => Tri::No,
            _ => Tri::Either,
        }
    }
}
