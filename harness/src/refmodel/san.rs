//! Reference SAN writer and interpreter for the notation the library documents
//! (FIDE Appendix C style, promotion letter without '=', optional '+'/'#', optional " e.p.").

use super::pos::*;

#[derive(Clone, Copy, PartialEq, Eq, Debug)]
pub struct SanText {
    pub piece: Kind,
    pub sf: Option<i8>,
    pub sr: Option<i8>,
    pub takes: bool,
    pub dest: Sq,
    pub promo: Option<Kind>,
    pub mark: Option<char>,
    pub ep: bool,
}
fn letter(k: Kind) -> &'static str {
    match k {
        Kind::P => "",
        Kind::N => "N",
        Kind::B => "B",
        Kind::R => "R",
        Kind::Q => "Q",
        Kind::K => "K",
    }
}
impl SanText {
    pub fn render(&self) -> String {
        let mut s = String::from(letter(self.piece));
        if let Some(f) = self.sf {
            s.push((b'a' + f as u8) as char);
        }
        if let Some(r) = self.sr {
            s.push((b'1' + r as u8) as char);
        }
        if self.takes {
            s.push('x');
        }
        s.push_str(&sq_name(self.dest));
        if let Some(k) = self.promo {
            s.push_str(letter(k));
        }
        if let Some(c) = self.mark {
            s.push(c);
        }
        if self.ep {
            s.push_str(" e.p.");
        }
        s
    }
}

/// '+' if the move gives check, '#' if it mates, None otherwise.
pub fn correct_mark(p: &RefPos, m: RMove) -> Option<char> {
    let n = p.apply(m);
    if !n.in_check() {
        None
    } else if n.legal_moves().is_empty() {
        Some('#')
    } else {
        Some('+')
    }
}

/// Every admissible spelling of legal move `m`: minimal and each fuller correct
/// disambiguation, 'x' on captures, promotion letter, no mark or the correct mark, optional
/// " e.p." on en-passant captures.
pub fn spellings(p: &RefPos, m: RMove) -> Vec<String> {
    let legal = p.legal_moves();
    let (kind, _) = p.at(m.from).expect("spellings: empty source");
    let mark = correct_mark(p, m);
    let marks: Vec<Option<char>> = if mark.is_some() { vec![None, mark] } else { vec![None] };
    let mut out = vec![];
    if p.is_castle(m) {
        let base = if file_of(m.to) == 6 { "O-O" } else { "O-O-O" };
        for mk in marks {
            out.push(format!("{}{}", base, mk.map(|c| c.to_string()).unwrap_or_default()));
        }
        return out;
    }
    let capture = p.is_capture(m);
    let ep = p.is_ep(m);
    let rivals: Vec<RMove> = legal.iter().copied().filter(|x| x.to == m.to && x.promo == m.promo && p.at(x.from).map(|y| y.0) == Some(kind)).collect();
    let specs: Vec<(Option<i8>, Option<i8>)> = vec![(None, None), (Some(file_of(m.from)), None), (None, Some(rank_of(m.from))), (Some(file_of(m.from)), Some(rank_of(m.from)))];
    for (sf, sr) in specs {
        let fits: Vec<&RMove> = rivals.iter().filter(|x| sf.map(|f| file_of(x.from) == f).unwrap_or(true) && sr.map(|r| rank_of(x.from) == r).unwrap_or(true)).collect();
        if fits.len() != 1 {
            continue;
        }
        if kind == Kind::P {
            // pawn captures name the file of departure; pawn pushes name nothing
            if capture && sf.is_none() {
                continue;
            }
            if !capture && (sf.is_some() || sr.is_some()) {
                continue;
            }
            if capture && sr.is_some() && sf.is_none() {
                continue;
            }
        }
        for mk in marks.iter() {
            for e in if ep { vec![false, true] } else { vec![false] } {
                out.push(SanText { piece: kind, sf, sr, takes: capture, dest: m.to, promo: m.promo, mark: *mk, ep: e }.render());
            }
        }
    }
    out
}

#[derive(Clone, Copy, PartialEq, Eq, Debug)]
pub enum Expect {
    /// must parse to exactly this move
    Must(RMove),
    /// must be rejected
    MustErr,
    /// either rejected or this move (the text is flawed only in an unvalidated marker)
    Either(RMove),
}

/// What the documented grammar makes of a grammar-complete text.
pub fn interpret(p: &RefPos, legal: &[RMove], t: &SanText) -> Expect {
    let fits: Vec<RMove> = legal
        .iter()
        .copied()
        .filter(|m| {
            p.at(m.from).map(|x| x.0) == Some(t.piece)
                && t.sf.map(|f| file_of(m.from) == f).unwrap_or(true)
                && t.sr.map(|r| rank_of(m.from) == r).unwrap_or(true)
                && m.to == t.dest
                && m.promo == t.promo
        })
        .collect();
    if fits.len() != 1 {
        return Expect::MustErr;
    }
    let m = fits[0];
    if p.is_castle(m) {
        // castling spelled as a king move ("Kg1"): not SAN, but harmless either way
        return Expect::Either(m);
    }
    // an 'x' says "capture": when the one fitting move captures nothing, the text denotes no legal move
    // (the statement: 'x' on captures; a text that denotes no legal move is rejected).  A MISSING 'x' on a
    // capture stays in the tolerant zone below.
    // (with an ' e.p.' suffix the library is lenient about the x — "Rxh1 e.p." is taken for Rh1 —; that stays in
    // the tolerant zone T4 with the other unvalidated markers)
    if t.takes && !t.ep && !p.is_capture(m) {
        return Expect::MustErr;
    }
    // pawn moves: the conventional forms are "e4" (no source), "exd5" (file) and the full
    // square; a lone source rank ("4xd5") or a file on a push ("ee4") is grammar the library's
    // own comments call illegal although its scanner takes it: either answer
    if t.piece == Kind::P {
        let conventional = match (t.sf.is_some(), t.sr.is_some()) {
            (false, false) => !p.is_capture(m),
            (true, false) => p.is_capture(m),
            (true, true) => true,
            (false, true) => false,
        };
        if !conventional {
            return Expect::Either(m);
        }
    }
    let marker_ok = t.takes == p.is_capture(m) && (!t.ep || p.is_ep(m));
    let mark_ok = match t.mark {
        None => true,
        Some(c) => correct_mark(p, m) == Some(c),
    };
    if marker_ok && mark_ok {
        Expect::Must(m)
    } else {
        Expect::Either(m)
    }
}
