//! Reference position model: a deliberately naive mailbox board.
//!
//! Shares no code, table or idea with the library under test: no bitboards, no magic
//! lookups, no incremental state.  Legality is decided by "make the move on a copy and look
//! whether the mover's king is attacked"; attacks are found by walking outwards from a square.
//!
//! Square numbering is the usual one (a1 = 0, b1 = 1, ..., h1 = 7, a2 = 8, ..., h8 = 63).

use std::fmt;

pub type Sq = u8;

#[derive(Clone, Copy, PartialEq, Eq, Hash, Debug, PartialOrd, Ord)]
pub enum Kind {
    P = 0,
    N = 1,
    B = 2,
    R = 3,
    Q = 4,
    K = 5,
}
pub const KINDS: [Kind; 6] = [Kind::P, Kind::N, Kind::B, Kind::R, Kind::Q, Kind::K];
pub const PROMOS: [Kind; 4] = [Kind::Q, Kind::N, Kind::R, Kind::B];

#[derive(Clone, Copy, PartialEq, Eq, Hash, Debug, PartialOrd, Ord)]
pub enum Col {
    W = 0,
    B = 1,
}
impl Col {
    #[inline]
    pub fn flip(self) -> Col {
        if self == Col::W {
            Col::B
        } else {
            Col::W
        }
    }
    /// +1 for White (towards rank 8), -1 for Black.
    #[inline]
    pub fn dir(self) -> i8 {
        if self == Col::W {
            1
        } else {
            -1
        }
    }
    #[inline]
    pub fn home_rank(self) -> i8 {
        if self == Col::W {
            0
        } else {
            7
        }
    }
    #[inline]
    pub fn pawn_rank(self) -> i8 {
        if self == Col::W {
            1
        } else {
            6
        }
    }
    /// Rank on which a pawn of this colour stands directly after a double push.
    #[inline]
    pub fn dp_rank(self) -> i8 {
        if self == Col::W {
            3
        } else {
            4
        }
    }
    #[inline]
    pub fn promo_rank(self) -> i8 {
        if self == Col::W {
            7
        } else {
            0
        }
    }
}

pub const WK: u8 = 1;
pub const WQ: u8 = 2;
pub const BK: u8 = 4;
pub const BQ: u8 = 8;

#[inline]
pub fn sq(file: i8, rank: i8) -> Sq {
    debug_assert!((0..8).contains(&file) && (0..8).contains(&rank));
    (rank * 8 + file) as u8
}
#[inline]
pub fn file_of(s: Sq) -> i8 {
    (s % 8) as i8
}
#[inline]
pub fn rank_of(s: Sq) -> i8 {
    (s / 8) as i8
}
#[inline]
pub fn on_board(f: i8, r: i8) -> bool {
    (0..8).contains(&f) && (0..8).contains(&r)
}
pub fn sq_name(s: Sq) -> String {
    format!("{}{}", (b'a' + (s % 8)) as char, (b'1' + (s / 8)) as char)
}

/// Board cell code: 0 = empty, otherwise 1 + kind + 6 * colour.
#[inline]
pub fn code(k: Kind, c: Col) -> u8 {
    1 + k as u8 + 6 * c as u8
}
#[inline]
pub fn decode(c: u8) -> Option<(Kind, Col)> {
    if c == 0 {
        None
    } else {
        let v = c - 1;
        Some((KINDS[(v % 6) as usize], if v >= 6 { Col::B } else { Col::W }))
    }
}
pub fn piece_char(k: Kind, c: Col) -> char {
    let ch = match k {
        Kind::P => 'p',
        Kind::N => 'n',
        Kind::B => 'b',
        Kind::R => 'r',
        Kind::Q => 'q',
        Kind::K => 'k',
    };
    if c == Col::W {
        ch.to_ascii_uppercase()
    } else {
        ch
    }
}

#[derive(Clone, Copy, PartialEq, Eq, Hash, Debug, PartialOrd, Ord)]
pub struct RMove {
    pub from: Sq,
    pub to: Sq,
    pub promo: Option<Kind>,
}
impl RMove {
    pub fn new(from: Sq, to: Sq, promo: Option<Kind>) -> RMove {
        RMove { from, to, promo }
    }
    pub fn uci(&self) -> String {
        let mut s = format!("{}{}", sq_name(self.from), sq_name(self.to));
        if let Some(k) = self.promo {
            s.push(piece_char(k, Col::B));
        }
        s
    }
    pub fn parse_uci(s: &str) -> Option<RMove> {
        let b = s.as_bytes();
        if b.len() < 4 {
            return None;
        }
        let f = |a: u8, r: u8| -> Option<Sq> {
            if (b'a'..=b'h').contains(&a) && (b'1'..=b'8').contains(&r) {
                Some((r - b'1') * 8 + (a - b'a'))
            } else {
                None
            }
        };
        let from = f(b[0], b[1])?;
        let to = f(b[2], b[3])?;
        let promo = if b.len() >= 5 {
            Some(match b[4] {
                b'q' => Kind::Q,
                b'r' => Kind::R,
                b'b' => Kind::B,
                b'n' => Kind::N,
                _ => return None,
            })
        } else {
            None
        };
        Some(RMove { from, to, promo })
    }
}
impl fmt::Display for RMove {
    fn fmt(&self, f: &mut fmt::Formatter) -> fmt::Result {
        write!(f, "{}", self.uci())
    }
}

#[derive(Clone, Copy, PartialEq, Eq, Hash, Debug, PartialOrd, Ord)]
pub struct RefPos {
    pub bd: [u8; 64],
    pub stm: Col,
    /// bit set of WK, WQ, BK, BQ
    pub castle: u8,
    /// file of the pawn that made a double push on the previous move (-1 = none); recorded after
    /// *every* double push, capturable or not (the FEN-standard notion).
    pub dp: i8,
}

const KNIGHT_D: [(i8, i8); 8] = [(1, 2), (2, 1), (2, -1), (1, -2), (-1, -2), (-2, -1), (-2, 1), (-1, 2)];
const KING_D: [(i8, i8); 8] = [(1, 0), (1, 1), (0, 1), (-1, 1), (-1, 0), (-1, -1), (0, -1), (1, -1)];
const ROOK_D: [(i8, i8); 4] = [(1, 0), (0, 1), (-1, 0), (0, -1)];
const BISHOP_D: [(i8, i8); 4] = [(1, 1), (-1, 1), (-1, -1), (1, -1)];

impl RefPos {
    pub fn empty() -> RefPos {
        RefPos { bd: [0; 64], stm: Col::W, castle: 0, dp: -1 }
    }
    #[inline]
    pub fn at(&self, s: Sq) -> Option<(Kind, Col)> {
        decode(self.bd[s as usize])
    }
    #[inline]
    pub fn put(&mut self, s: Sq, k: Kind, c: Col) {
        self.bd[s as usize] = code(k, c);
    }
    #[inline]
    pub fn clear(&mut self, s: Sq) {
        self.bd[s as usize] = 0;
    }
    pub fn kings(&self, c: Col) -> Vec<Sq> {
        (0..64u8).filter(|&s| self.at(s) == Some((Kind::K, c))).collect()
    }
    pub fn king_sq(&self, c: Col) -> Option<Sq> {
        (0..64u8).find(|&s| self.at(s) == Some((Kind::K, c)))
    }
    pub fn count(&self, c: Col) -> usize {
        (0..64u8).filter(|&s| matches!(self.at(s), Some((_, cc)) if cc == c)).count()
    }
    pub fn count_kind(&self, k: Kind, c: Col) -> usize {
        (0..64u8).filter(|&s| self.at(s) == Some((k, c))).count()
    }
    pub fn men(&self) -> usize {
        self.bd.iter().filter(|&&c| c != 0).count()
    }

    /// Squares of all men of colour `by` that attack `target` (pawns attack diagonally forward).
    pub fn attackers(&self, target: Sq, by: Col) -> Vec<Sq> {
        let mut out = Vec::new();
        let (f, r) = (file_of(target), rank_of(target));
        for &(df, dr) in KNIGHT_D.iter() {
            let (nf, nr) = (f + df, r + dr);
            if on_board(nf, nr) && self.at(sq(nf, nr)) == Some((Kind::N, by)) {
                out.push(sq(nf, nr));
            }
        }
        for &(df, dr) in KING_D.iter() {
            let (nf, nr) = (f + df, r + dr);
            if on_board(nf, nr) && self.at(sq(nf, nr)) == Some((Kind::K, by)) {
                out.push(sq(nf, nr));
            }
        }
        // a pawn of colour `by` on (f±1, r - dir(by)) attacks the target
        for df in [-1i8, 1] {
            let (nf, nr) = (f + df, r - by.dir());
            if on_board(nf, nr) && self.at(sq(nf, nr)) == Some((Kind::P, by)) {
                out.push(sq(nf, nr));
            }
        }
        for &(df, dr) in ROOK_D.iter() {
            let (mut nf, mut nr) = (f + df, r + dr);
            while on_board(nf, nr) {
                if let Some((k, c)) = self.at(sq(nf, nr)) {
                    if c == by && (k == Kind::R || k == Kind::Q) {
                        out.push(sq(nf, nr));
                    }
                    break;
                }
                nf += df;
                nr += dr;
            }
        }
        for &(df, dr) in BISHOP_D.iter() {
            let (mut nf, mut nr) = (f + df, r + dr);
            while on_board(nf, nr) {
                if let Some((k, c)) = self.at(sq(nf, nr)) {
                    if c == by && (k == Kind::B || k == Kind::Q) {
                        out.push(sq(nf, nr));
                    }
                    break;
                }
                nf += df;
                nr += dr;
            }
        }
        out.sort();
        out
    }
    #[inline]
    pub fn attacked(&self, target: Sq, by: Col) -> bool {
        !self.attackers(target, by).is_empty()
    }
    /// Is the king of colour `c` attacked?  (false if there is no such king)
    pub fn king_attacked(&self, c: Col) -> bool {
        match self.king_sq(c) {
            Some(k) => self.attacked(k, c.flip()),
            None => false,
        }
    }
    pub fn in_check(&self) -> bool {
        self.king_attacked(self.stm)
    }
    /// Enemy men attacking the king of the side to move.
    pub fn checkers(&self) -> Vec<Sq> {
        match self.king_sq(self.stm) {
            Some(k) => self.attackers(k, self.stm.flip()),
            None => vec![],
        }
    }

    /// Men of colour `c` that are absolutely pinned to their own king, by definition: removing
    /// the man from the board exposes the king to an enemy slider that does not attack it now.
    pub fn pinned(&self, c: Col) -> Vec<Sq> {
        let k = match self.king_sq(c) {
            Some(k) => k,
            None => return vec![],
        };
        let now = self.attackers(k, c.flip());
        let mut out = Vec::new();
        for s in 0..64u8 {
            if let Some((kind, cc)) = self.at(s) {
                if cc != c || kind == Kind::K {
                    continue;
                }
                let mut p = *self;
                p.clear(s);
                let after = p.attackers(k, c.flip());
                if after.iter().any(|a| !now.contains(a)) {
                    out.push(s);
                }
            }
        }
        out
    }

    /// Square passed over by the pawn recorded in `dp` (the en-passant target square).
    pub fn ep_target(&self) -> Option<Sq> {
        if self.dp < 0 {
            None
        } else {
            let pusher = self.stm.flip();
            Some(sq(self.dp, pusher.dp_rank() - pusher.dir()))
        }
    }
    /// Square on which the pawn recorded in `dp` stands.
    pub fn dp_pawn_sq(&self) -> Option<Sq> {
        if self.dp < 0 {
            None
        } else {
            Some(sq(self.dp, self.stm.flip().dp_rank()))
        }
    }
    /// Does a pawn of the side to move stand beside the double-pushed pawn?
    pub fn ep_adjacent(&self) -> bool {
        match self.dp_pawn_sq() {
            None => false,
            Some(p) => {
                let (f, r) = (file_of(p), rank_of(p));
                [-1i8, 1].iter().any(|&d| on_board(f + d, r) && self.at(sq(f + d, r)) == Some((Kind::P, self.stm)))
            }
        }
    }

    fn castle_bits(c: Col) -> (u8, u8) {
        if c == Col::W {
            (WK, WQ)
        } else {
            (BK, BQ)
        }
    }
    pub fn has_k(&self, c: Col) -> bool {
        self.castle & Self::castle_bits(c).0 != 0
    }
    pub fn has_q(&self, c: Col) -> bool {
        self.castle & Self::castle_bits(c).1 != 0
    }

    /// Pseudo-legal moves: piece movement rules only; castling is generated with all of its own
    /// conditions (so it is fully legal when generated); king safety is not considered for the rest.
    pub fn pseudo_moves(&self) -> Vec<RMove> {
        let me = self.stm;
        let mut out = Vec::with_capacity(48);
        for s in 0..64u8 {
            let (k, c) = match self.at(s) {
                Some(x) => x,
                None => continue,
            };
            if c != me {
                continue;
            }
            let (f, r) = (file_of(s), rank_of(s));
            match k {
                Kind::P => {
                    let d = me.dir();
                    let nr = r + d;
                    if !(0..8).contains(&nr) {
                        continue; // pawn on the last rank (not a chess position): no moves
                    }
                    let push = |to: Sq, out: &mut Vec<RMove>| {
                        if rank_of(to) == me.promo_rank() {
                            for &p in PROMOS.iter() {
                                out.push(RMove::new(s, to, Some(p)));
                            }
                        } else {
                            out.push(RMove::new(s, to, None));
                        }
                    };
                    if self.at(sq(f, nr)).is_none() {
                        push(sq(f, nr), &mut out);
                        if r == me.pawn_rank() && self.at(sq(f, nr + d)).is_none() {
                            out.push(RMove::new(s, sq(f, nr + d), None));
                        }
                    }
                    for df in [-1i8, 1] {
                        let nf = f + df;
                        if !on_board(nf, nr) {
                            continue;
                        }
                        let t = sq(nf, nr);
                        match self.at(t) {
                            Some((_, cc)) if cc != me => push(t, &mut out),
                            None => {
                                // en passant: only onto the passed-over square, only immediately
                                if self.ep_target() == Some(t) && r == me.flip().dp_rank() {
                                    out.push(RMove::new(s, t, None));
                                }
                            }
                            _ => {}
                        }
                    }
                }
                Kind::N | Kind::K => {
                    let ds = if k == Kind::N { &KNIGHT_D } else { &KING_D };
                    for &(df, dr) in ds.iter() {
                        let (nf, nr) = (f + df, r + dr);
                        if on_board(nf, nr) {
                            match self.at(sq(nf, nr)) {
                                Some((_, cc)) if cc == me => {}
                                _ => out.push(RMove::new(s, sq(nf, nr), None)),
                            }
                        }
                    }
                    if k == Kind::K {
                        self.castling_moves(s, &mut out);
                    }
                }
                Kind::B | Kind::R | Kind::Q => {
                    let mut dirs: Vec<(i8, i8)> = Vec::new();
                    if k != Kind::B {
                        dirs.extend_from_slice(&ROOK_D);
                    }
                    if k != Kind::R {
                        dirs.extend_from_slice(&BISHOP_D);
                    }
                    for (df, dr) in dirs {
                        let (mut nf, mut nr) = (f + df, r + dr);
                        while on_board(nf, nr) {
                            match self.at(sq(nf, nr)) {
                                None => out.push(RMove::new(s, sq(nf, nr), None)),
                                Some((_, cc)) => {
                                    if cc != me {
                                        out.push(RMove::new(s, sq(nf, nr), None));
                                    }
                                    break;
                                }
                            }
                            nf += df;
                            nr += dr;
                        }
                    }
                }
            }
        }
        out
    }

    /// FIDE 3.8.2: right present, king and rook at home, squares between them empty, king not
    /// in check, the square it crosses and the square it lands on not attacked.
    fn castling_moves(&self, ksq: Sq, out: &mut Vec<RMove>) {
        let me = self.stm;
        let hr = me.home_rank();
        if ksq != sq(4, hr) {
            return;
        }
        let opp = me.flip();
        if self.has_k(me)
            && self.at(sq(7, hr)) == Some((Kind::R, me))
            && self.at(sq(5, hr)).is_none()
            && self.at(sq(6, hr)).is_none()
            && !self.attacked(sq(4, hr), opp)
            && !self.attacked(sq(5, hr), opp)
            && !self.attacked(sq(6, hr), opp)
        {
            out.push(RMove::new(ksq, sq(6, hr), None));
        }
        if self.has_q(me)
            && self.at(sq(0, hr)) == Some((Kind::R, me))
            && self.at(sq(1, hr)).is_none()
            && self.at(sq(2, hr)).is_none()
            && self.at(sq(3, hr)).is_none()
            && !self.attacked(sq(4, hr), opp)
            && !self.attacked(sq(3, hr), opp)
            && !self.attacked(sq(2, hr), opp)
        {
            out.push(RMove::new(ksq, sq(2, hr), None));
        }
    }

    pub fn is_castle(&self, m: RMove) -> bool {
        matches!(self.at(m.from), Some((Kind::K, _))) && (file_of(m.from) - file_of(m.to)).abs() == 2
    }
    pub fn is_ep(&self, m: RMove) -> bool {
        matches!(self.at(m.from), Some((Kind::P, _)))
            && file_of(m.from) != file_of(m.to)
            && self.at(m.to).is_none()
    }
    pub fn is_capture(&self, m: RMove) -> bool {
        self.at(m.to).is_some() || self.is_ep(m)
    }
    pub fn is_double_push(&self, m: RMove) -> bool {
        matches!(self.at(m.from), Some((Kind::P, _))) && (rank_of(m.from) - rank_of(m.to)).abs() == 2
    }

    /// FIDE Article 3: the successor position.  `m` is assumed pseudo-legal.
    pub fn apply(&self, m: RMove) -> RefPos {
        let mut n = *self;
        let (k, c) = self.at(m.from).expect("apply: empty source");
        n.dp = -1;
        if k == Kind::P && self.is_ep(m) {
            // the captured pawn stands beside the capturer, on the destination file
            n.clear(sq(file_of(m.to), rank_of(m.from)));
        }
        n.clear(m.from);
        n.put(m.to, m.promo.unwrap_or(k), c);
        if k == Kind::K && (file_of(m.from) - file_of(m.to)).abs() == 2 {
            let hr = rank_of(m.from);
            if file_of(m.to) == 6 {
                n.clear(sq(7, hr));
                n.put(sq(5, hr), Kind::R, c);
            } else {
                n.clear(sq(0, hr));
                n.put(sq(3, hr), Kind::R, c);
            }
        }
        if k == Kind::P && (rank_of(m.from) - rank_of(m.to)).abs() == 2 {
            n.dp = file_of(m.from);
        }
        // rights: lost when the king or a rook leaves its home square or a rook is captured there
        for s in [m.from, m.to] {
            match s {
                4 => n.castle &= !(WK | WQ),
                0 => n.castle &= !WQ,
                7 => n.castle &= !WK,
                60 => n.castle &= !(BK | BQ),
                56 => n.castle &= !BQ,
                63 => n.castle &= !BK,
                _ => {}
            }
        }
        n.stm = c.flip();
        n
    }

    pub fn is_legal_pseudo(&self, m: RMove) -> bool {
        let n = self.apply(m);
        !n.king_attacked(self.stm)
    }
    pub fn legal_moves(&self) -> Vec<RMove> {
        let mut v: Vec<RMove> = self.pseudo_moves().into_iter().filter(|&m| self.is_legal_pseudo(m)).collect();
        v.sort();
        v
    }
    /// Pseudo-legal moves that are not legal (pinned pieces, king into check, ep under pin...).
    pub fn illegal_pseudo_moves(&self) -> Vec<RMove> {
        let mut v: Vec<RMove> = self.pseudo_moves().into_iter().filter(|&m| !self.is_legal_pseudo(m)).collect();
        v.sort();
        v
    }
    /// A legal en-passant capture exists.
    pub fn ep_legal(&self) -> bool {
        self.dp >= 0 && self.legal_moves().iter().any(|&m| self.is_ep(m))
    }
    /// Null move: only the turn passes (and the double-push memory is lost).
    pub fn pass(&self) -> RefPos {
        let mut n = *self;
        n.stm = self.stm.flip();
        n.dp = -1;
        n
    }

    /// The predicate "valid position" of the properties' quantifiers.
    pub fn is_valid(&self) -> bool {
        self.invalid_reason().is_none()
    }
    pub fn invalid_reason(&self) -> Option<&'static str> {
        for c in [Col::W, Col::B] {
            if self.kings(c).len() != 1 {
                return Some("not exactly one king per side");
            }
            if self.count(c) > 16 {
                return Some("more than 16 men of a side");
            }
            if self.count_kind(Kind::P, c) > 8 {
                return Some("more than 8 pawns of a side");
            }
        }
        for s in (0..8u8).chain(56..64u8) {
            if matches!(self.at(s), Some((Kind::P, _))) {
                return Some("pawn on first or last rank");
            }
        }
        if self.king_attacked(self.stm.flip()) {
            return Some("side not to move is in check");
        }
        for (bit, c, rf) in [(WK, Col::W, 7), (WQ, Col::W, 0), (BK, Col::B, 7), (BQ, Col::B, 0)] {
            if self.castle & bit != 0 {
                let hr = c.home_rank();
                if self.at(sq(4, hr)) != Some((Kind::K, c)) || self.at(sq(rf, hr)) != Some((Kind::R, c)) {
                    return Some("castling right without king and rook at home");
                }
            }
        }
        if self.dp >= 0 {
            let pusher = self.stm.flip();
            let r4 = pusher.dp_rank();
            let d = pusher.dir();
            if self.at(sq(self.dp, r4)) != Some((Kind::P, pusher)) {
                return Some("double-push state without the pawn");
            }
            if self.at(sq(self.dp, r4 - d)).is_some() || self.at(sq(self.dp, r4 - 2 * d)).is_some() {
                return Some("double-push state with occupied origin or passed-over square");
            }
            // the predecessor position (pawn back on its origin, pusher to move) must itself not
            // have the side not to move in check
            let mut pred = *self;
            pred.clear(sq(self.dp, r4));
            pred.put(sq(self.dp, r4 - 2 * d), Kind::P, pusher);
            if pred.king_attacked(self.stm) {
                return Some("double-push state whose predecessor had the non-mover in check");
            }
        }
        None
    }

    // ---------------------------------------------------------------- text

    pub fn placement_field(&self) -> String {
        let mut s = String::new();
        for r in (0..8).rev() {
            let mut run = 0;
            for f in 0..8 {
                match self.at(sq(f, r)) {
                    None => run += 1,
                    Some((k, c)) => {
                        if run > 0 {
                            s.push_str(&run.to_string());
                            run = 0;
                        }
                        s.push(piece_char(k, c));
                    }
                }
            }
            if run > 0 {
                s.push_str(&run.to_string());
            }
            if r > 0 {
                s.push('/');
            }
        }
        s
    }
    pub fn castle_field(&self) -> String {
        let mut s = String::new();
        if self.castle & WK != 0 {
            s.push('K');
        }
        if self.castle & WQ != 0 {
            s.push('Q');
        }
        if self.castle & BK != 0 {
            s.push('k');
        }
        if self.castle & BQ != 0 {
            s.push('q');
        }
        if s.is_empty() {
            s.push('-');
        }
        s
    }
    /// Standard FEN: the en-passant target square is written after *every* double push.
    pub fn fen(&self) -> String {
        format!(
            "{} {} {} {} 0 1",
            self.placement_field(),
            if self.stm == Col::W { "w" } else { "b" },
            self.castle_field(),
            self.ep_target().map(sq_name).unwrap_or_else(|| "-".to_string())
        )
    }
    /// FEN variant that writes the en-passant square only when a legal capture exists.
    pub fn fen_ep_if_legal(&self) -> String {
        let mut p = *self;
        if !p.ep_legal() {
            p.dp = -1;
        }
        p.fen()
    }

    /// Own FEN reader, strict: exactly the standard syntax (single spaces, 4 or 6 fields, 8 ranks
    /// each summing to 8, digits 1-8 never adjacent, castling letters in KQkq order, en-passant
    /// square on rank 3/6 matching the side to move, numeric clocks).
    pub fn from_fen(fen: &str) -> Result<RefPos, String> {
        let t: Vec<&str> = fen.split(' ').collect();
        if t.len() != 4 && t.len() != 6 {
            return Err(format!("fen needs 4 or 6 single-space separated fields: {fen}"));
        }
        if t.len() == 6 && (t[4].parse::<u32>().is_err() || t[5].parse::<u32>().is_err()) {
            return Err(format!("clock fields are not numbers: {fen}"));
        }
        let mut p = RefPos::empty();
        let ranks: Vec<&str> = t[0].split('/').collect();
        if ranks.len() != 8 {
            return Err(format!("fen needs 8 ranks: {fen}"));
        }
        for (i, rk) in ranks.iter().enumerate() {
            let r = 7 - i as i8;
            let mut f = 0i8;
            let mut last_digit = false;
            for ch in rk.chars() {
                if ('1'..='8').contains(&ch) {
                    if last_digit {
                        return Err(format!("adjacent digits in {fen}"));
                    }
                    last_digit = true;
                    f += ch as i8 - '0' as i8;
                } else {
                    last_digit = false;
                    let c = if ch.is_ascii_uppercase() { Col::W } else { Col::B };
                    let k = match ch {
                        'p' | 'P' => Kind::P,
                        'n' | 'N' => Kind::N,
                        'b' | 'B' => Kind::B,
                        'r' | 'R' => Kind::R,
                        'q' | 'Q' => Kind::Q,
                        'k' | 'K' => Kind::K,
                        _ => return Err(format!("bad piece {ch} in {fen}")),
                    };
                    if f > 7 {
                        return Err(format!("rank overflow in {fen}"));
                    }
                    p.put(sq(f, r), k, c);
                    f += 1;
                }
            }
            if f != 8 {
                return Err(format!("rank does not sum to 8 in {fen}"));
            }
        }
        p.stm = match t[1] {
            "w" => Col::W,
            "b" => Col::B,
            _ => return Err(format!("bad side in {fen}")),
        };
        if t[2] != "-" {
            let mut order = 0;
            if t[2].is_empty() {
                return Err(format!("empty castling field in {fen}"));
            }
            for ch in t[2].chars() {
                let (bit, o) = match ch {
                    'K' => (WK, 1),
                    'Q' => (WQ, 2),
                    'k' => (BK, 3),
                    'q' => (BQ, 4),
                    _ => return Err(format!("bad castling in {fen}")),
                };
                if o <= order {
                    return Err(format!("castling letters out of order in {fen}"));
                }
                order = o;
                p.castle |= bit;
            }
        }
        if t[3] != "-" {
            let b = t[3].as_bytes();
            if b.len() != 2 || !(b'a'..=b'h').contains(&b[0]) {
                return Err(format!("bad ep in {fen}"));
            }
            p.dp = (b[0] - b'a') as i8;
            let want = if p.stm == Col::W { b'6' } else { b'3' };
            if b[1] != want {
                return Err(format!("ep square on wrong rank in {fen}"));
            }
        }
        Ok(p)
    }

    // ---------------------------------------------------------------- symmetry

    /// Swap colours and flip the board top to bottom.
    pub fn mirror_v(&self) -> RefPos {
        let mut n = RefPos::empty();
        for s in 0..64u8 {
            if let Some((k, c)) = self.at(s) {
                n.put(mirror_v_sq(s), k, c.flip());
            }
        }
        n.stm = self.stm.flip();
        n.castle = ((self.castle & 3) << 2) | ((self.castle >> 2) & 3);
        n.dp = self.dp;
        n
    }
    /// Flip the board left to right (only meaningful without castling rights).
    pub fn mirror_h(&self) -> RefPos {
        let mut n = RefPos::empty();
        for s in 0..64u8 {
            if let Some((k, c)) = self.at(s) {
                n.put(mirror_h_sq(s), k, c);
            }
        }
        n.stm = self.stm;
        n.castle = 0;
        n.dp = if self.dp >= 0 { 7 - self.dp } else { -1 };
        n
    }

    pub fn perft(&self, depth: u32) -> u64 {
        if depth == 0 {
            return 1;
        }
        let ms = self.legal_moves();
        if depth == 1 {
            return ms.len() as u64;
        }
        ms.iter().map(|&m| self.apply(m).perft(depth - 1)).sum()
    }
}

#[inline]
pub fn mirror_v_sq(s: Sq) -> Sq {
    sq(file_of(s), 7 - rank_of(s))
}
#[inline]
pub fn mirror_h_sq(s: Sq) -> Sq {
    sq(7 - file_of(s), rank_of(s))
}
pub fn mirror_v_move(m: RMove) -> RMove {
    RMove::new(mirror_v_sq(m.from), mirror_v_sq(m.to), m.promo)
}
pub fn mirror_h_move(m: RMove) -> RMove {
    RMove::new(mirror_h_sq(m.from), mirror_h_sq(m.to), m.promo)
}

impl fmt::Display for RefPos {
    fn fmt(&self, f: &mut fmt::Formatter) -> fmt::Result {
        write!(f, "{}", self.fen())
    }
}
