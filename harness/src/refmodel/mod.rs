pub mod game;
pub mod pos;
pub use game::*;
pub use pos::*;
