pub mod game;
pub mod pos;
pub mod san;
pub use game::*;
pub use pos::*;
