pub mod pos;
pub use pos::*;
