//! The standard position universes of the E1 properties, sized per tier.

use crate::engine::posgraph::*;
use crate::refmodel::*;
use crate::run::{Run, Tier};
use crate::universe::*;
use serde_json::json;
use std::collections::BTreeMap;
use std::sync::Arc;

pub struct Plan {
    /// per-root leaf budget deciding the tree depth of each root
    pub tree_budget: u64,
    pub depth_cap: u8,
    pub dfs: bool,
    pub families: Vec<(Box<dyn Family>, u8)>,
    pub closures: Vec<(String, Vec<Box<dyn Family>>)>,
    pub root_groups: Option<Vec<&'static str>>,
    /// depth of the trees below the feature-covering roots (None = not used)
    pub feature_depth: Option<u8>,
    /// judge pairs of positions whose hashes agree in a truncation of the key, one right after the other
    /// on one thread (state carried between calls inside the library)
    pub call_order_pairs: bool,
    /// use the larger source universe for those pairs (40-bit agreements) also in the quick tier
    pub call_order_big: bool,
}

/// `scale` divides the budgets for oracles that are several times more expensive per state.
pub fn standard_plan(tier: Tier, scale: u64) -> Plan {
    let mut families: Vec<(Box<dyn Family>, u8)> = vec![];
    for f in three_man_families() {
        // quick: the bishop / knight sets are judged without their children (their children are
        // again bishop / knight or bare-king positions of the same complete sets); oracles that
        // are expensive per state (scale >= 2) also judge the queen / rook sets without children
        let minor = f.men.iter().any(|m| m.0 == Kind::B || m.0 == Kind::N);
        let major = f.men.iter().any(|m| m.0 == Kind::Q || m.0 == Kind::R);
        let cd = if tier == Tier::Quick && (minor || (major && scale >= 2)) { 0 } else { 1 };
        families.push((Box::new(f), cd));
    }
    match tier {
        Tier::Quick => {
            families.push((Box::new(EpFamily { extra: Extra::None, pre_push: false }), 1));
            families.push((Box::new(EpFamily { extra: Extra::None, pre_push: true }), 2));
            families.push((Box::new(EpTwoFamily { extra: Extra::None, pre_push: true }), 2));
            families.push((Box::new(CastleFamily { extras: 0, opp_rights: false, opp_to_move: false }), 1));
            families.push((Box::new(CastleFamily { extras: 1, opp_rights: false, opp_to_move: false }), 1));
            families.push((Box::new(CastleFamily { extras: 0, opp_rights: false, opp_to_move: true }), 2));
            families.push((Box::new(CastleFamily { extras: 1, opp_rights: false, opp_to_move: true }), if scale >= 4 { 0 } else { 1 }));
            families.push((Box::new(PromoFamily::reduced()), 1));
        }
        Tier::Thorough => {
            families.push((Box::new(EpFamily { extra: Extra::None, pre_push: false }), 2));
            families.push((Box::new(EpFamily { extra: Extra::Any, pre_push: false }), 1));
            families.push((Box::new(EpFamily { extra: Extra::None, pre_push: true }), 3));
            families.push((Box::new(EpFamily { extra: Extra::EnemySlider, pre_push: true }), 2));
            families.push((Box::new(EpTwoFamily { extra: Extra::None, pre_push: true }), 3));
            families.push((Box::new(EpTwoFamily { extra: Extra::EnemySlider, pre_push: true }), 2));
            families.push((Box::new(CastleFamily { extras: 0, opp_rights: false, opp_to_move: false }), 2));
            families.push((Box::new(CastleFamily { extras: 1, opp_rights: false, opp_to_move: false }), 1));
            families.push((Box::new(CastleFamily { extras: 1, opp_rights: true, opp_to_move: false }), 1));
            families.push((Box::new(CastleFamily { extras: 0, opp_rights: false, opp_to_move: true }), 2));
            families.push((Box::new(CastleFamily { extras: 1, opp_rights: false, opp_to_move: true }), 1));
            families.push((Box::new(CastleFamily { extras: 1, opp_rights: true, opp_to_move: true }), 1));
            families.push((Box::new(PromoFamily::full()), 1));
            for men in [
                vec![(Kind::Q, Col::W), (Kind::R, Col::B)],
                vec![(Kind::R, Col::W), (Kind::B, Col::B)],
                vec![(Kind::P, Col::W), (Kind::P, Col::B)],
                vec![(Kind::R, Col::B), (Kind::N, Col::W)],
            ] {
                let dp = men.iter().any(|m| m.0 == Kind::P);
                families.push((Box::new(MenFamily { men, with_dp: dp }), 1));
            }
        }
    }
    families.push((Box::new(BothCastleFamily), tier.pick(1, 2)));
    Plan {
        tree_budget: tier.pick(40_000, 2_500_000) / scale,
        depth_cap: tier.pick(5, 7),
        dfs: tier == Tier::Thorough,
        families,
        closures: vec![],
        call_order_pairs: false,
        call_order_big: false,
        root_groups: None,
        feature_depth: Some(match tier {
            Tier::Quick => {
                if scale >= 2 {
                    1
                } else {
                    2
                }
            }
            Tier::Thorough => 2,
        }),
    }
}

/// For cheap oracles: the en-passant family with one enemy slider anywhere (every rank / file /
/// diagonal exposure of the capturing side's king), with children, also in the quick tier.
pub fn with_ep_slider_family(mut plan: Plan, tier: Tier) -> Plan {
    if tier == Tier::Quick {
        // member = position before the double push; first action = the push (made by the library),
        // then every reply: the en-passant captures are judged on incrementally produced boards
        plan.families.push((Box::new(EpFamily { extra: Extra::EnemySlider, pre_push: true }), 2));
        // a capturer on both sides of the pushed pawn (each pinned or not independently), every reply applied
        plan.families.push((Box::new(EpTwoFamily { extra: Extra::EnemySlider, pre_push: false }), 1));
    }
    plan.families.push((Box::new(PawnMovesFirst(ep_discoverers_family())), 1));
    plan
}

/// For medium-cost oracles: the en-passant positions with one enemy slider anywhere, judged as
/// positions (no children), in the quick tier.
pub fn with_ep_slider_positions(mut plan: Plan, tier: Tier) -> Plan {
    if tier == Tier::Quick {
        plan.families.push((Box::new(EpFamily { extra: Extra::EnemySlider, pre_push: false }), 0));
        plan.families.push((Box::new(EpTwoFamily { extra: Extra::EnemySlider, pre_push: false }), 0));
    }
    plan.families.push((Box::new(PawnMovesFirst(ep_discoverers_family())), 1));
    plan
}

/// Line geometry around a king (pins, non-pins, batteries of stacked sliders, two lines at once),
/// judged as positions (`depth_single` plies below the single-ray members).
pub fn with_line_geometry(plan: Plan, pairs: bool, depth_single: u8) -> Plan {
    with_line_geometry_for(plan, pairs, depth_single, false)
}
/// `mover_only`: of the two-ray members keep those in which the side with the pinned men is to move
/// (for oracles that are expensive per state and judge the mover's moves).
pub fn with_line_geometry_for(mut plan: Plan, pairs: bool, depth_single: u8, mover_only: bool) -> Plan {
    plan.call_order_pairs = true;
    plan.families.push((Box::new(line_family(false, true)), depth_single));
    if pairs {
        let mut f = line_family(true, false);
        if mover_only {
            f.items.retain(|p| (0..64u8).any(|s| p.at(s) == Some((Kind::N, p.stm))));
            f.label.push_str("; members with the pinned side to move only");
        }
        plan.families.push((Box::new(f), 0));
    }
    plan
}

pub fn krk_closure() -> (String, Vec<Box<dyn Family>>) {
    (
        "KRK (either colour's rook) closure".into(),
        vec![
            Box::new(MenFamily { men: vec![(Kind::R, Col::W)], with_dp: false }),
            Box::new(MenFamily { men: vec![(Kind::R, Col::B)], with_dp: false }),
        ],
    )
}
pub fn kqk_closure() -> (String, Vec<Box<dyn Family>>) {
    (
        "KQK closure".into(),
        vec![
            Box::new(MenFamily { men: vec![(Kind::Q, Col::W)], with_dp: false }),
            Box::new(MenFamily { men: vec![(Kind::Q, Col::B)], with_dp: false }),
        ],
    )
}
pub fn kpk_closure() -> (String, Vec<Box<dyn Family>>) {
    (
        "KPK closure (with promotions into KQK/KRK/KBK/KNK and captures into KK)".into(),
        vec![
            Box::new(MenFamily { men: vec![(Kind::P, Col::W)], with_dp: true }),
            Box::new(MenFamily { men: vec![(Kind::P, Col::B)], with_dp: true }),
        ],
    )
}

pub fn run_plan<O: PosOracle>(run: &Arc<Run>, oracle: &Arc<O>, plan: &Plan) {
    // ---- trees
    let mut by_depth: BTreeMap<u8, Vec<RefPos>> = BTreeMap::new();
    let mut nroots = 0;
    {
        use rayon::prelude::*;
        let rs: Vec<Root> = roots().into_iter().filter(|r| plan.root_groups.as_ref().map(|g| g.contains(&r.group)).unwrap_or(true)).collect();
        let ds: Vec<u8> = rs.par_iter().map(|r| depth_for(&r.pos, plan.tree_budget, plan.depth_cap)).collect();
        for (r, d) in rs.iter().zip(ds) {
            by_depth.entry(d).or_default().push(r.pos);
            nroots += 1;
        }
    }
    let mut tree_notes = vec![];
    for (d, rs) in by_depth.iter() {
        if run.has_violation() {
            break;
        }
        if run.over_budget() {
            run.cap(format!("wall-clock budget reached before the depth-{d} tree group ({} roots) was explored", rs.len()));
            continue;
        }
        let t0 = run.elapsed();
        let st = explore_tree(run, oracle, rs, *d, plan.dfs);
        tree_notes.push(json!({"depth": d, "roots": rs.len(), "unique_states": st.unique, "arrivals": st.generated, "seconds": run.elapsed() - t0}));
        if let Some(r) = rs.first() {
            run.sample(json!({"kind": "tree root", "fen": r.fen(), "explored_to_depth": d}));
        }
    }
    if let Some(fd) = plan.feature_depth {
        if !run.has_violation() && !run.over_budget() {
            let fr = feature_roots();
            let t0 = run.elapsed();
            let st = explore_tree(run, oracle, &fr, fd, plan.dfs);
            run.note("feature_root_trees", json!({"roots": fr.len(), "depth": fd, "unique_states": st.unique, "arrivals": st.generated, "seconds": run.elapsed() - t0,
                "what": "for every feature signature (check kind x pins x en-passant state x castling state x promotion x classes of illegal pseudo-moves) met by a reference-only BFS to depth 4 below 12 opening lines and the dense curated roots, the PARENT of its first occurrence (so the representative is reached by the library's incremental move application one ply below the root)"}));
            if let Some(r) = fr.get((run.seed as usize * 131 + 17) % fr.len().max(1)) {
                run.sample(json!({"kind": "feature root", "fen": r.fen(), "explored_to_depth": fd}));
            }
        }
    }
    run.note("trees", json!({"roots": nroots, "per_root_leaf_budget": plan.tree_budget, "groups": tree_notes, "search": if plan.dfs {"stateright spawn_dfs"} else {"stateright spawn_bfs"}}));

    // ---- families
    let mut fam_notes = vec![];
    // thorough tier: cheapest families first (estimated members x 30^child depth), so that a budget cap
    // costs the few giant enumerations at the end, never the many small families the quick tier covers
    let mut order: Vec<&(Box<dyn Family>, u8)> = plan.families.iter().collect();
    if run.tier == Tier::Thorough {
        order.sort_by_key(|(f, cd)| f.size().saturating_mul(30u64.pow(*cd as u32)));
    }
    for (f, cd) in order.into_iter() {
        if run.has_violation() {
            break;
        }
        if run.over_budget() {
            run.cap(format!("wall-clock budget reached before family '{}' was enumerated", f.name()));
            continue;
        }
        let t0 = run.elapsed();
        let n = sweep_family_first(run, oracle, f.size(), |i| f.get(i), |p| f.first_moves(p), *cd);
        fam_notes.push(json!({"family": f.name(), "index_space": f.size(), "valid_members": n, "child_depth": cd, "seconds": run.elapsed() - t0}));
        if let Some(p) = (0..f.size()).step_by(((f.size() / 97).max(1)) as usize).filter_map(|i| f.get(i)).nth((run.seed % 5) as usize) {
            run.sample(json!({"kind": "family member", "family": f.name(), "fen": p.fen()}));
        }
    }
    run.note("families", json!(fam_notes));

    // ---- closures
    let mut clo_notes = vec![];
    for (name, fams) in plan.closures.iter() {
        if run.has_violation() {
            break;
        }
        if run.over_budget() {
            run.cap(format!("wall-clock budget reached before closure '{}' was computed", name));
            continue;
        }
        let mut seeds = vec![];
        for f in fams {
            seeds.extend(collect(&**f));
        }
        let t0 = run.elapsed();
        let st = explore_closure(run, oracle, &seeds);
        clo_notes.push(json!({"closure": name, "seed_states": seeds.len(), "unique_states_at_fixpoint": st.unique, "arrivals": st.generated, "max_depth": st.max_depth, "seconds": run.elapsed() - t0}));
    }
    run.note("closures", json!(clo_notes));
    // ---- call order
    if plan.call_order_pairs && !run.has_violation() {
        use rayon::prelude::*;
        let pairs = hash_collision_pairs_from(if run.tier == Tier::Quick { 300 } else { 3000 }, true);
        pairs.par_iter().for_each(|(p1, p2, kind)| {
            if run.has_violation() {
                return;
            }
            if let (Ok(s1), Ok(s2)) = (St::root(p1), St::root(p2)) {
                let before = run.has_violation();
                judge_state(&**oracle, run, &s1);
                judge_state(&**oracle, run, &s2);
                // ... and the same MOVE applied to the first and then to the second (a memo keyed by a narrowed
                // parent hash plus the move)
                let m2 = p2.legal_moves();
                for m in p1.legal_moves().into_iter().filter(|m| m2.contains(m)).take(4) {
                    if let Some(n1) = step(&**oracle, run, &s1, &Act::Mv(m), true) {
                        judge_state(&**oracle, run, &n1);
                    }
                    if let Some(n2) = step(&**oracle, run, &s2, &Act::Mv(m), true) {
                        judge_state(&**oracle, run, &n2);
                    }
                }
                if !before && run.has_violation() {
                    eprintln!("[{}] note: {} and {} were judged one right after the other on one thread; their hashes agree in their {kind}", run.id, p1.fen(), p2.fen());
                }
            }
        });
        run.note("call_order_pairs", json!({"pairs": pairs.len(), "what": "ordered pairs of different positions (3-man sets and the two-pawn en-passant family; for 40-bit agreements also K+Q v K+R, found on predicted keys and confirmed on the real hashes) whose library hashes agree in the low 32 / high 32 / low 16 / low 24 / xor-folded 32 / high 32 + low 8 / high 16 + low 16 bits / the high half of key x golden ratio, judged one right after the other on one thread, then up to four moves legal in both applied to the first and at once to the second: a memo inside the library keyed by a narrowed hash (and the move) answers for the wrong position"}));
    }
}
