pub mod plan;
pub mod posgraph;
