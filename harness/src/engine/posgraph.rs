//! E1 — explicit-state exploration of the position graph of the real `chess::Board`,
//! in lock step with the reference position.
//!
//! Every transition *is* a call of the library's `make_move_new` / `null_move`; the reference
//! model only supplies the action menu (its legal moves) and the oracle.  Three drivers share the
//! same per-state / per-transition oracle code:
//!   * `explore_tree`    — stateright BFS/DFS, depth part of the state key (bounded trees);
//!   * `explore_closure` — stateright, no depth in the key, runs to a fixpoint (all histories of a
//!                          finite material class);
//!   * `sweep_family`    — every member of a lazily enumerated family is an initial state,
//!                          explored to a small child depth (no deduplication needed).

use crate::bridge::*;
use crate::guard;
use crate::refmodel::*;
use crate::run::{Run, Violation};
use chess::Board;
use rayon::prelude::*;
use serde_json::{json, Value};
use stateright::{Checker, Model, Property};
use std::hash::{Hash, Hasher};
use std::sync::atomic::Ordering;
use std::sync::Arc;

#[derive(Clone, Copy, PartialEq, Eq, Debug, Hash)]
pub enum Act {
    Mv(RMove),
    Null,
}
impl Act {
    pub fn name(&self) -> String {
        match self {
            Act::Mv(m) => m.uci(),
            Act::Null => "null".to_string(),
        }
    }
    pub fn parse(s: &str) -> Option<Act> {
        if s == "null" {
            Some(Act::Null)
        } else {
            RMove::parse_uci(s).map(Act::Mv)
        }
    }
}

#[derive(Debug)]
pub struct PathNode {
    pub act: Act,
    pub parent: Option<Arc<PathNode>>,
}
pub fn path_vec(p: &Option<Arc<PathNode>>) -> Vec<Act> {
    let mut v = vec![];
    let mut cur = p.as_ref();
    while let Some(n) = cur {
        v.push(n.act);
        cur = n.parent.as_ref();
    }
    v.reverse();
    v
}

#[derive(Clone, Debug)]
pub struct St {
    pub key: RefPos,
    pub lib: Board,
    pub depth: u8,
    pub nulls: u8,
    /// depth as it enters the fingerprint (0 in closure mode)
    pub dkey: u8,
    pub root: RefPos,
    pub path: Option<Arc<PathNode>>,
    pub viol: bool,
}
impl Hash for St {
    fn hash<H: Hasher>(&self, h: &mut H) {
        self.key.hash(h);
        self.dkey.hash(h);
        self.nulls.hash(h);
        self.viol.hash(h);
    }
}
impl PartialEq for St {
    fn eq(&self, o: &St) -> bool {
        self.key == o.key && self.dkey == o.dkey && self.nulls == o.nulls && self.viol == o.viol
    }
}
impl St {
    pub fn root(p: &RefPos) -> Result<St, String> {
        let lib = guard::lib(|| from_scratch(p)).map_err(|e| format!("panic: {e}"))??;
        Ok(St { key: *p, lib, depth: 0, nulls: 0, dkey: 0, root: *p, path: None, viol: false })
    }
    pub fn case(&self) -> Value {
        json!({"kind": "posgraph", "root": self.root.fen(), "actions": path_vec(&self.path).iter().map(|a| a.name()).collect::<Vec<_>>()})
    }
    pub fn case_with(&self, a: &Act) -> Value {
        let mut acts: Vec<String> = path_vec(&self.path).iter().map(|a| a.name()).collect();
        acts.push(a.name());
        json!({"kind": "posgraph", "root": self.root.fen(), "actions": acts})
    }
}

/// What an oracle found wrong (the engine adds the replayable case).
pub struct Finding {
    pub clause: &'static str,
    pub shape: String,
    pub detail: String,
}
impl Finding {
    pub fn new(clause: &'static str, shape: impl Into<String>, detail: impl Into<String>) -> Finding {
        Finding { clause, shape: shape.into(), detail: detail.into() }
    }
}
pub type Judged = Result<(), Finding>;

pub trait PosOracle: Send + Sync + 'static {
    fn id(&self) -> &'static str;
    /// judged once per unique state
    fn state(&self, run: &Run, s: &St) -> Judged;
    /// judged on every arrival (every transition, transpositions included)
    fn transition(&self, _run: &Run, _pre: &St, _a: &Act, _post: &St) -> Judged {
        Ok(())
    }
    /// how many null moves a path may contain
    fn max_nulls(&self) -> u8 {
        0
    }
    /// true: the action menu is what the *library* generates and the state key is the library's
    /// observable position (the exploration follows the implementation's own graph)
    fn lib_driven(&self) -> bool {
        false
    }
}

/// Observable position as a reference position (None if piece_on/color_on are inconsistent).
pub fn obs_to_pos(o: &Obs) -> Option<RefPos> {
    let mut p = RefPos::empty();
    for s in 0..64usize {
        if o.bd[s] > 12 {
            return None;
        }
        p.bd[s] = o.bd[s];
    }
    p.stm = o.stm;
    p.castle = o.castle;
    p.dp = o.ep.map(|s| file_of(s)).unwrap_or(-1);
    Some(p)
}
pub fn menu_for<O: PosOracle + ?Sized>(oracle: &O, s: &St) -> Vec<RMove> {
    if oracle.lib_driven() {
        let b = s.lib;
        let mut v = guard::lib(move || lib_moves(&b)).unwrap_or_default();
        v.sort();
        v.dedup();
        v
    } else {
        menu(&s.key)
    }
}

fn crumb_decode(b: &[u8]) -> String {
    // 64 cells, stm, castle, dp, then optional move (from, to, promo+1) or 255 for null
    if b.len() < 67 {
        return "<short crumb>".into();
    }
    let mut p = RefPos::empty();
    p.bd.copy_from_slice(&b[..64]);
    p.stm = if b[64] == 0 { Col::W } else { Col::B };
    p.castle = b[65];
    p.dp = b[66] as i8;
    let mv = if b.len() >= 70 {
        if b[67] == 255 {
            " action=null".to_string()
        } else {
            format!(" action={}", RMove::new(b[67], b[68], if b[69] == 0 { None } else { Some(KINDS[(b[69] - 1) as usize]) }))
        }
    } else {
        String::new()
    };
    format!("position {}{}", p.fen(), mv)
}
pub fn crumb_pos(p: &RefPos, a: Option<&Act>) {
    let mut b = [0u8; 70];
    b[..64].copy_from_slice(&p.bd);
    b[64] = p.stm as u8;
    b[65] = p.castle;
    b[66] = p.dp as u8;
    let n = match a {
        None => 67,
        Some(Act::Null) => {
            b[67] = 255;
            70
        }
        Some(Act::Mv(m)) => {
            b[67] = m.from;
            b[68] = m.to;
            b[69] = m.promo.map(|k| k as u8 + 1).unwrap_or(0);
            70
        }
    };
    guard::crumb_raw(crumb_decode, &b[..n]);
}

/// Simplest-first ordering of the action menu (quiet, capture, castle, en passant, promotion).
fn move_rank(p: &RefPos, m: &RMove) -> u8 {
    if m.promo.is_some() {
        4
    } else if p.is_ep(*m) {
        3
    } else if p.is_castle(*m) {
        2
    } else if p.is_capture(*m) {
        1
    } else {
        0
    }
}
pub fn menu(p: &RefPos) -> Vec<RMove> {
    let mut ms = p.legal_moves();
    ms.sort_by_key(|m| (move_rank(p, m), *m));
    ms
}

/// One step of the lock-step transition function (library and reference), with the oracle.
/// Returns None when the action is not enabled (null move in check).
pub fn step<O: PosOracle + ?Sized>(oracle: &O, run: &Run, pre: &St, a: &Act, closure: bool) -> Option<St> {
    crumb_pos(&pre.key, Some(a));
    let (key, libres, nulls) = match a {
        Act::Mv(m) => {
            let lm = lmove(*m);
            let b = pre.lib;
            let r = guard::lib(move || Some(b.make_move_new(lm)));
            let key = if oracle.lib_driven() {
                match &r {
                    Ok(Some(nb)) => obs_to_pos(&observe(nb)).unwrap_or(pre.key),
                    _ => pre.key,
                }
            } else {
                pre.key.apply(*m)
            };
            (key, r, pre.nulls)
        }
        Act::Null => {
            let b = pre.lib;
            let r = guard::lib(move || b.null_move());
            if pre.key.in_check() {
                // the refusal itself is judged by C18's state oracle; no transition here
                return None;
            }
            (pre.key.pass(), r, pre.nulls + 1)
        }
    };
    run.transitions.fetch_add(1, Ordering::Relaxed);
    let path = Some(Arc::new(PathNode { act: *a, parent: pre.path.clone() }));
    let depth = pre.depth.saturating_add(1);
    let mut post = St { key, lib: pre.lib, depth, nulls, dkey: if closure { 0 } else { depth }, root: pre.root, path, viol: false };
    let finding = match libres {
        Err(msg) => Some(Finding::new("panic", "library panicked while applying an action", format!("panic: {msg}"))),
        Ok(None) => {
            // null move refused although the reference is not in check: C18's concern; other
            // oracles simply cannot follow this edge
            if oracle.id() == "C18" {
                Some(Finding::new("null-refused", "null move refused out of check", "null_move() returned None but the side to move is not in check".to_string()))
            } else {
                return None;
            }
        }
        Ok(Some(b)) => {
            post.lib = b;
            oracle.transition(run, pre, a, &post).err()
        }
    };
    if let Some(f) = finding {
        let v = Violation::new(
            oracle.id(),
            f.clause,
            &f.shape,
            format!("{}\n  at {} after {}\n  root {} path {:?}", f.detail, pre.key.fen(), a.name(), pre.root.fen(), path_vec(&pre.path).iter().map(|x| x.name()).collect::<Vec<_>>()),
            pre.case_with(a),
        );
        if run.report(v) {
            post.viol = true;
        }
    }
    Some(post)
}

/// Judge one state; returns false iff a fatal (unlisted) violation was found.
pub fn judge_state<O: PosOracle + ?Sized>(oracle: &O, run: &Run, s: &St) -> bool {
    if s.viol {
        return false;
    }
    crumb_pos(&s.key, None);
    run.states.fetch_add(1, Ordering::Relaxed);
    match oracle.state(run, s) {
        Ok(()) => true,
        Err(f) => {
            let v = Violation::new(
                oracle.id(),
                f.clause,
                &f.shape,
                format!("{}\n  at {}\n  root {} path {:?}", f.detail, s.key.fen(), s.root.fen(), path_vec(&s.path).iter().map(|x| x.name()).collect::<Vec<_>>()),
                s.case(),
            );
            !run.report(v)
        }
    }
}

// ------------------------------------------------------------------------------------------
// stateright model

pub struct PosGraph<O: PosOracle> {
    pub oracle: Arc<O>,
    pub run: Arc<Run>,
    pub roots: Vec<St>,
    pub max_depth: u8,
    pub closure: bool,
}

impl<O: PosOracle> Model for PosGraph<O> {
    type State = St;
    type Action = Act;

    fn init_states(&self) -> Vec<St> {
        self.roots.clone()
    }
    fn actions(&self, s: &St, out: &mut Vec<Act>) {
        if s.viol || (!self.closure && s.depth >= self.max_depth) || self.run.has_violation() {
            return;
        }
        for m in menu_for(&*self.oracle, s) {
            out.push(Act::Mv(m));
        }
        if s.nulls < self.oracle.max_nulls() {
            out.push(Act::Null);
        }
    }
    fn next_state(&self, s: &St, a: Act) -> Option<St> {
        step(&*self.oracle, &self.run, s, &a, self.closure)
    }
    fn properties(&self) -> Vec<Property<Self>> {
        vec![Property::<Self>::always("holds", |m: &PosGraph<O>, s: &St| judge_state(&*m.oracle, &m.run, s))]
    }
}

pub struct ExploreStats {
    pub unique: u64,
    pub generated: u64,
    pub max_depth: u64,
}

/// A reference-valid position that the library refuses to construct.  For C07 (validation accepts every
/// valid position) and C05 (valid positions pass is_sane) that is a violation; the other properties cannot
/// be judged on a position that does not exist: it is recorded as a cap and the exploration goes on.
pub fn on_rejected(run: &Run, p: &RefPos, e: &str) {
    match run.id.as_str() {
        "C07" => {
            run.report(Violation::new("C07", "valid-rejected", "reference-valid position rejected by the builder", format!("{} rejected: {}", p.fen(), e), json!({"kind":"fen","fen":p.fen()})));
        }
        "C05" => {
            run.report(Violation::new("C05", "is-sane", "valid position refused at construction", format!("the valid position {} cannot be constructed: {}", p.fen(), e), json!({"kind":"fen","fen":p.fen()})));
        }
        _ => {
            static ONCE: std::sync::atomic::AtomicU64 = std::sync::atomic::AtomicU64::new(0);
            let n = ONCE.fetch_add(1, Ordering::Relaxed);
            if n < 5 {
                run.cap(format!("the valid position {} is refused by the library ({e}) and was not explored; that refusal is a matter for C07 / C05", p.fen()));
            }
            run.add_dynamic_rejected();
        }
    }
}

fn make_roots(run: &Run, roots: &[RefPos]) -> Vec<St> {
    let mut out = vec![];
    for r in roots {
        match St::root(r) {
            Ok(s) => out.push(s),
            Err(e) => on_rejected(run, r, &e),
        }
    }
    out
}

/// Bounded-depth exploration: every position within `depth` plies of a root, depth in the key.
pub fn explore_tree<O: PosOracle>(run: &Arc<Run>, oracle: &Arc<O>, roots: &[RefPos], depth: u8, dfs: bool) -> ExploreStats {
    let model = PosGraph { oracle: oracle.clone(), run: run.clone(), roots: make_roots(run, roots), max_depth: depth, closure: false };
    run_checker(model, dfs)
}
/// Fixpoint exploration without a depth bound (finite material classes only).
pub fn explore_closure<O: PosOracle>(run: &Arc<Run>, oracle: &Arc<O>, seeds: &[RefPos]) -> ExploreStats {
    let model = PosGraph { oracle: oracle.clone(), run: run.clone(), roots: make_roots(run, seeds), max_depth: 255, closure: true };
    run_checker(model, true)
}
fn run_checker<O: PosOracle>(model: PosGraph<O>, dfs: bool) -> ExploreStats {
    let threads = std::thread::available_parallelism().map(|n| n.get()).unwrap_or(8);
    // the wall-clock budget also bounds a single exploration: stateright stops handing out work
    // when the timeout passes (reported as a cap by the caller via run.over_budget())
    let remaining = (model.run.budget_s - model.run.elapsed()).max(10.0);
    let run = model.run.clone();
    let b = model.checker().threads(threads).timeout(std::time::Duration::from_secs_f64(remaining));
    let r = run_checker_inner(b, dfs);
    if run.elapsed() > run.budget_s {
        run.cap("an exploration was stopped by the wall-clock budget before its state space was exhausted; the states judged until then are counted".to_string());
    }
    r
}
fn run_checker_inner<O: PosOracle>(b: stateright::CheckerBuilder<PosGraph<O>>, dfs: bool) -> ExploreStats {
    if dfs {
        let c = b.spawn_dfs().join();
        ExploreStats { unique: c.unique_state_count() as u64, generated: c.state_count() as u64, max_depth: c.max_depth() as u64 }
    } else {
        let c = b.spawn_bfs().join();
        ExploreStats { unique: c.unique_state_count() as u64, generated: c.state_count() as u64, max_depth: c.max_depth() as u64 }
    }
}

/// Family sweep: `n` members addressed by index, produced by `gen(i)` (None = index does not yield
/// a valid position).  Each member is an initial state and is explored `child_depth` plies deep.
pub fn sweep_family<O: PosOracle, G>(run: &Arc<Run>, oracle: &Arc<O>, n: u64, gen: G, child_depth: u8) -> u64
where
    G: Fn(u64) -> Option<RefPos> + Sync,
{
    sweep_family_first(run, oracle, n, gen, |_| None, child_depth)
}

/// As `sweep_family`, with an optional restriction of the action menu at the member itself.
pub fn sweep_family_first<O: PosOracle, G, F>(run: &Arc<Run>, oracle: &Arc<O>, n: u64, gen: G, first: F, child_depth: u8) -> u64
where
    G: Fn(u64) -> Option<RefPos> + Sync,
    F: Fn(&RefPos) -> Option<Vec<RMove>> + Sync,
{
    let chunk = 4096u64;
    let chunks = (n + chunk - 1) / chunk;
    let members = std::sync::atomic::AtomicU64::new(0);
    let skipped = std::sync::atomic::AtomicU64::new(0);
    (0..chunks).into_par_iter().for_each(|c| {
        if run.has_violation() {
            return;
        }
        if run.over_budget() {
            skipped.fetch_add(1, Ordering::Relaxed);
            return;
        }
        for i in (c * chunk)..((c + 1) * chunk).min(n) {
            if let Some(p) = gen(i) {
                members.fetch_add(1, Ordering::Relaxed);
                match St::root(&p) {
                    Ok(s) => {
                        dfs_from_first(&**oracle, run, &s, child_depth, first(&p));
                    }
                    Err(e) => {
                        on_rejected(run, &p, &e);
                    }
                }
            }
        }
    });
    let sk = skipped.load(Ordering::Relaxed);
    if sk > 0 {
        run.cap(format!("wall-clock budget reached inside a family enumeration: {} of {} index chunks (of {} indices each) were not visited", sk, chunks, chunk));
    }
    members.load(Ordering::Relaxed)
}

/// Plain recursive exploration without deduplication (used for family members and for replay).
pub fn dfs_from<O: PosOracle + ?Sized>(oracle: &O, run: &Run, s: &St, depth: u8) -> bool {
    dfs_from_first(oracle, run, s, depth, None)
}
pub fn dfs_from_first<O: PosOracle + ?Sized>(oracle: &O, run: &Run, s: &St, depth: u8, first: Option<Vec<RMove>>) -> bool {
    if !judge_state(oracle, run, s) {
        return false;
    }
    if depth == 0 {
        return true;
    }
    let restricted = first.is_some();
    let mut acts: Vec<Act> = match first {
        Some(ms) => {
            let all = menu_for(oracle, s);
            ms.into_iter().filter(|m| all.contains(m)).map(Act::Mv).collect()
        }
        None => menu_for(oracle, s).into_iter().map(Act::Mv).collect(),
    };
    if !restricted && s.nulls < oracle.max_nulls() {
        acts.push(Act::Null);
    }
    for a in acts {
        if let Some(n) = step(oracle, run, s, &a, true) {
            if !dfs_from(oracle, run, &n, depth - 1) {
                return false;
            }
        }
    }
    true
}

/// Replay: re-execute one recorded path on the library without the explorer.
pub fn replay_path<O: PosOracle + ?Sized>(oracle: &O, run: &Run, case: &Value) -> Result<(), String> {
    let root = RefPos::from_fen(case["root"].as_str().ok_or("case.root missing")?)?;
    let acts: Vec<Act> = case["actions"]
        .as_array()
        .ok_or("case.actions missing")?
        .iter()
        .map(|a| Act::parse(a.as_str().unwrap_or("")).ok_or_else(|| format!("bad action {a}")))
        .collect::<Result<_, _>>()?;
    let mut s = St::root(&root)?;
    if !judge_state(oracle, run, &s) {
        return Ok(());
    }
    for a in acts {
        if let Act::Mv(m) = a {
            if !menu_for(oracle, &s).contains(&m) {
                return Err(format!("replay divergence: {m} is not legal at {}", s.key.fen()));
            }
        }
        match step(oracle, run, &s, &a, true) {
            None => return Err(format!("replay divergence: action {} not enabled at {}", a.name(), s.key.fen())),
            Some(n) => s = n,
        }
        if !judge_state(oracle, run, &s) {
            return Ok(());
        }
    }
    Ok(())
}
