#!/usr/bin/env bash
# tools/regress_seeds_parallel.sh [lanes] [tier]: like regress_seeds.sh, but on scratch copies
# (one worktree of /repo + one copy of the harness + one target dir per lane under /tmp/regress_lanes),
# several seeds at a time.  A regression aid only: the results recorded in seeded/*/meta.json come
# from tools/try_patch.sh on /repo itself.  Removes its scratch directories when done.
lanes="${1:-4}"; tier="${2:-quick}"
base=/tmp/regress_lanes
head=$(git -C /repo rev-parse HEAD)
mkdir -p $base
ls -d /verif/seeded/C*/ | while read d; do [ -f "$d/patch.diff" ] && basename "$d"; done > $base/all.txt
out=/verif/target/regress_par.log; : > $out
lane() {
  i=$1; iso=$base/lane$i
  mkdir -p $iso/verif/evidence $iso/verif/replays
  [ -d $iso/repo ] || git -C /repo worktree add --detach $iso/repo $head >/dev/null 2>&1
  rsync -a --delete --exclude target /verif/harness/ $iso/harness/
  sed -i "s#path = \"/repo\"#path = \"$iso/repo\"#" $iso/harness/Cargo.toml
  cp /verif/known_findings.json $iso/verif/
  export GLIBC_TUNABLES=glibc.malloc.tcache_count=0 VERIF_DIR=$iso/verif CARGO_NET_OFFLINE=true VERIF_BUDGET_S=500
  awk -v n=$lanes -v i=$i 'NR % n == i' $base/all.txt | while read id; do
    prop=${id:0:3}
    git -C $iso/repo checkout -q -- . ; git -C $iso/repo clean -fdq tests 2>/dev/null
    if ! git -C $iso/repo apply /verif/seeded/$id/patch.diff 2>/dev/null; then echo "$id PATCH-DOES-NOT-APPLY" >> $out; continue; fi
    ( cd $iso/harness && CARGO_TARGET_DIR=$iso/target/default cargo build --release --offline >$iso/build.log 2>&1 ) || { echo "$id BUILD-FAILED" >> $out; continue; }
    bmi=""
    if [ $prop = C15 ]; then
      ( cd $iso/harness && RUSTFLAGS="-C target-feature=+bmi2" CARGO_TARGET_DIR=$iso/target/bmi2 cargo build --release --offline >$iso/build2.log 2>&1 ) && bmi=$iso/target/bmi2/release/cv
    fi
    s=$(date +%s)
    o=$(CV_BMI2_BIN=$bmi $iso/target/default/release/cv $prop $tier 2>&1); rc=$?
    e=$(date +%s)
    if [ $rc -eq 1 ]; then st=DETECTED; else st=MISSED; fi
    echo "$id $st rc=$rc $((e-s))s $(echo "$o" | grep -m1 -E '^--- ' | cut -c1-120)" >> $out
  done
  git -C $iso/repo checkout -q -- .
}
for i in $(seq 0 $((lanes-1))); do lane $i & done
wait
for i in $(seq 0 $((lanes-1))); do git -C /repo worktree remove --force $base/lane$i/repo 2>/dev/null; done
rm -rf $base; git -C /repo worktree prune
sort $out > $out.sorted
echo "SUMMARY detected=$(grep -c ' DETECTED ' $out) not-detected=$(grep -vc ' DETECTED ' $out) : $(grep -v ' DETECTED ' $out | cut -d' ' -f1,2 | tr '\n' ';')" | tee -a $out.sorted
