#!/usr/bin/env bash
# tools/try_patch_isolated.sh <patch.diff> <tier> <Cxx> [...]
# Like try_patch.sh, but works on a scratch worktree of /repo and a scratch copy of the harness
# (under /tmp/seediso), so that it can run while other checks are using /repo and /verif/target.
# For iteration only: the recorded results in seeded/*/meta.json come from try_patch.sh on /repo.
set -u
patch="$1"; tier="$2"; shift 2
iso=/tmp/seediso
mkdir -p $iso
if [ ! -d $iso/repo ]; then git -C /repo worktree add --detach $iso/repo HEAD >/dev/null 2>&1 || exit 2; fi
git -C $iso/repo checkout -q -- . ; git -C $iso/repo clean -fdq tests
git -C $iso/repo checkout -q --detach $(git -C /repo rev-parse HEAD)
rsync -a --delete --exclude target "${HARNESS_SRC:-/verif/harness}/" $iso/harness/
sed -i "s#path = \"/repo\"#path = \"$iso/repo\"#" $iso/harness/Cargo.toml
mkdir -p $iso/verif/evidence $iso/verif/replays
cp /verif/known_findings.json $iso/verif/
git -C $iso/repo apply "$patch" || { echo "patch does not apply" >&2; exit 2; }
export GLIBC_TUNABLES=glibc.malloc.tcache_count=0 VERIF_DIR=$iso/verif CARGO_NET_OFFLINE=true
( cd $iso/harness && CARGO_TARGET_DIR=$iso/target/default cargo build --release --offline >$iso/build.log 2>&1 ) || { echo "build failed"; tail -5 $iso/build.log; git -C $iso/repo checkout -q -- .; exit 2; }
for c in "$@"; do
  s=$(date +%s)
  out=$($iso/target/default/release/cv "$c" "$tier" 2>&1); rc=$?
  e=$(date +%s)
  echo "$c rc=$rc $((e-s))s $(echo "$out" | grep -m1 -E "^--- " | cut -c1-160)"
done
git -C $iso/repo checkout -q -- .
