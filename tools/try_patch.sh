#!/usr/bin/env bash
# tools/try_patch.sh <patch.diff> <tier> <Cxx> [<Cyy> ...]
# Applies a seeded change to /repo's working tree, runs the named checks, prints one line per
# check, and always restores /repo (git checkout -- .).  Never commits anything.
set -u
patch="$1"; tier="$2"; shift 2
cd /verif
export VERIF_EVIDENCE_DIR=/verif/target/evidence_scratch
mkdir -p "$VERIF_EVIDENCE_DIR"
if ! git -C /repo diff --quiet; then echo "refusing: /repo has uncommitted changes" >&2; exit 2; fi
git -C /repo apply "$patch" || { echo "patch does not apply" >&2; exit 2; }
trap 'git -C /repo checkout -- . ; git -C /repo clean -fdq tests 2>/dev/null' EXIT
for c in "$@"; do
  s=$(date +%s)
  out=$(./check "$c" "$tier" 2>&1); rc=$?
  e=$(date +%s)
  v=$(echo "$out" | grep -m1 -E "^--- " | cut -c1-160)
  echo "$c rc=$rc $((e-s))s $v"
done
