#!/usr/bin/env bash
# tools/regress_seeds.sh [tier]: for every kept seeded change run the quick (or given) check of the
# property it targets against the patched /repo and report whether it is still detected.
# Always restores /repo.  Output: one line per seed + a summary.
tier="${1:-quick}"
cd /verif
ok=0; miss=0; missed=""
for d in seeded/C*/; do
  id=$(basename "$d"); prop=${id:0:3}
  [ -f "$d/patch.diff" ] || continue
  flags=""
  r=$(tools/try_patch.sh "/verif/$d/patch.diff" "$tier" "$prop" 2>&1 | grep "^$prop ")
  if echo "$r" | grep -q " rc=1 "; then ok=$((ok+1)); st=DETECTED; else miss=$((miss+1)); missed="$missed $id"; st=MISSED; fi
  echo "$id $st $(echo "$r" | cut -c1-140)"
done
echo "SUMMARY detected=$ok missed=$miss :$missed"
