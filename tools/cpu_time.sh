#!/usr/bin/env bash
# tools/cpu_time.sh <Cxx> [tier]: CPU seconds of one check (user+sys) and the implied wall time on 16 idle cores
p="$1"; tier="${2:-quick}"
/usr/bin/time -f "%U %S %e" -o /tmp/cpu_$p.txt ./check "$p" "$tier" >/dev/null 2>&1
read u s e < /tmp/cpu_$p.txt
echo "$p cpu=$(echo "$u + $s" | bc)s wall_now=${e}s implied_idle_wall=$(echo "($u + $s)/16" | bc)s"
