#!/usr/bin/env bash
# tools/verify_seed.sh <worktree> <patch.diff> <demo.rs>
# Confirms in a scratch worktree: patch applies; 36 unit tests pass with it; the demo passes
# without the patch and fails with it.  Leaves the worktree clean.
set -u
wt="$1"; patch="$2"; demo="$3"
cd "$wt" || exit 2
git checkout -q -- . ; git clean -fdq tests
mkdir -p tests; cp "$demo" tests/seed_demo.rs
clean=$(cargo test --offline --test seed_demo 2>&1 | grep -E "^test result" | tail -1)
git apply "$patch" || { echo "PATCH DOES NOT APPLY"; exit 2; }
unit=$(cargo test --offline --lib 2>&1 | grep -E "^test result" | tail -1)
patched=$(cargo test --offline --test seed_demo 2>&1 | grep -E "^test result" | tail -1)
git checkout -q -- . ; git clean -fdq tests
echo "demo on clean tree : $clean"
echo "unit tests patched : $unit"
echo "demo patched       : $patched"
