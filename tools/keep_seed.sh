#!/usr/bin/env bash
# tools/keep_seed.sh <Cxx> <A|B|..> "<needs>" : verify in the scratch worktree, run the property's quick check
# against the change in /repo (then restore), and archive to seeded/<Cxx><letter>/
set -u
p="$1"; x="$2"; needs="$3"; shift 3
extra_checks="$*"
src=/tmp/mut/$p-out
dst=/verif/seeded/$p$x
v=$(/verif/tools/verify_seed.sh /tmp/mut/$p $src/patch$x.diff $src/demo$x.rs 2>&1)
echo "$v"
r=$(/verif/tools/try_patch.sh $src/patch$x.diff quick $p $extra_checks 2>&1)
echo "$r"
mkdir -p $dst
cp $src/patch$x.diff $dst/patch.diff; cp $src/demo$x.rs $dst/demo.rs
python3 - "$p" "$x" "$needs" "$v" "$r" "$dst" <<'PY'
import json,sys
p,x,needs,v,r,dst=sys.argv[1:7]
lines=[l for l in r.splitlines() if l.startswith('C')]
meta={"breaks_property":p,"needs_to_manifest":needs,
 "origin":"written by an independent sub-agent that saw only the property text and its own scratch worktree of /repo (nothing from /verif)",
 "confirmed_in_scratch_worktree":v.splitlines(),
 "ran":["tools/verify_seed.sh (demo passes on the clean tree, 36 unit tests pass with the patch, demo fails with the patch)","tools/try_patch.sh patch.diff quick "+p],
 "check_results":lines,
 "detected_by":[l.split()[0] for l in lines if ' rc=1 ' in l]}
json.dump(meta,open(dst+'/meta.json','w'),indent=1)
print("detected_by:",meta["detected_by"])
PY
